package main

import (
	"fmt"
	"go/ast"
	"go/parser"
	"go/token"
	"go/types"
	"os"
	"path/filepath"
	"sort"
	"strings"

	"golang.org/x/tools/go/packages"
	"golang.org/x/tools/go/ssa"
	"golang.org/x/tools/go/ssa/ssautil"
)

const modulePath = "github.com/sassoftware/relic/v8"

type Checker struct {
	specDup      error                // a spec function / macro name defined twice
	fieldRanges  map[string][2]string // heap array name -> assumed [lo, hi] of a counter field (externs.spec `fieldrange`)
	anyHomeCache map[string][]anyHome
	repo         string
	verif        string
	fset         *token.FileSet
	prog         *ssa.Program
	pkgs         map[string]*packages.Package
	specFiles    []*SpecFile
	contracts    map[string]*FuncContract // by full SSA function name
	externs      []*FuncContract
	specFuncs    map[string]*SpecFunc
	lemmas       []*Lemma
	strs         map[string]int
	strList      []string
	typeIDs      map[string]int
	closureOf    map[string]*ssa.MakeClosure
	cellCtr      int
	qctr         int
	havocCalls   map[string]map[string]bool
	externUsed   map[string]*FuncContract
	srcCache     map[string][]byte
	sigCache     map[string]*specSigT
	notes        []string
	nonnil       map[string]bool
	constGlobals map[*ssa.Package]map[*ssa.Global]*ssa.Const
}

func fullName(pkgPath, rel string) string {
	if pkgPath == "" {
		return rel
	}
	// (*T).m -> (*pkg.T).m ; (T).m -> (pkg.T).m ; f -> pkg.f
	if strings.HasPrefix(rel, "(*") {
		return "(*" + pkgPath + "." + rel[2:]
	}
	if strings.HasPrefix(rel, "(") {
		return "(" + pkgPath + "." + rel[1:]
	}
	return pkgPath + "." + rel
}

func newChecker(repo, verif string) *Checker {
	return &Checker{
		repo: repo, verif: verif,
		contracts: map[string]*FuncContract{}, specFuncs: map[string]*SpecFunc{},
		strs: map[string]int{}, typeIDs: map[string]int{}, closureOf: map[string]*ssa.MakeClosure{},
		havocCalls: map[string]map[string]bool{}, externUsed: map[string]*FuncContract{},
		srcCache: map[string][]byte{}, sigCache: map[string]*specSigT{},
	}
}

// loadSpecs parses every contract file in the repository and the extern/spec files of /verif/contracts.
func (ck *Checker) loadSpecs() error {
	files, err := findContractFiles(ck.repo)
	if err != nil {
		return err
	}
	sort.Strings(files)
	for _, f := range files {
		rel, _ := filepath.Rel(ck.repo, filepath.Dir(f))
		pkgPath := modulePath
		if rel != "." {
			pkgPath += "/" + filepath.ToSlash(rel)
		}
		sf, err := parseSpecFile(f, pkgPath, false)
		if err != nil {
			return err
		}
		ck.addSpecFile(sf)
	}
	extra, _ := filepath.Glob(filepath.Join(ck.verif, "contracts", "*.spec"))
	sort.Strings(extra)
	for _, f := range extra {
		sf, err := parseSpecFile(f, "", true)
		if err != nil {
			return err
		}
		ck.addSpecFile(sf)
	}
	return ck.specDup
}

func (ck *Checker) addSpecFile(sf *SpecFile) {
	ck.specFiles = append(ck.specFiles, sf)
	for _, f := range sf.Funcs {
		if f.Extern {
			ck.externs = append(ck.externs, f)
		} else {
			ck.contracts[fullName(f.PkgPath, f.Name)] = f
		}
	}
	for _, s := range sf.SpecFuncs {
		if old, ok := ck.specFuncs[s.Name]; ok {
			ck.specDup = fmt.Errorf("spec function or macro %s defined twice (%s:%d and %s:%d): names are global", s.Name, old.File, old.Line, s.File, s.Line)
		}
		ck.specFuncs[s.Name] = s
	}
	ck.lemmas = append(ck.lemmas, sf.Lemmas...)
	if ck.nonnil == nil {
		ck.nonnil = map[string]bool{}
	}
	for _, fr := range sf.FieldRanges {
		if ck.fieldRanges == nil {
			ck.fieldRanges = map[string][2]string{}
		}
		ck.fieldRanges["H:"+fr[0]+":."+fr[1]] = [2]string{fr[2], fr[3]}
	}
	for _, g := range sf.NonNilGlobals {
		ck.nonnil[g] = true
	}
}

func (ck *Checker) contractOf(f *ssa.Function) *FuncContract {
	if c, ok := ck.contracts[f.String()]; ok {
		return c
	}
	if o := f.Origin(); o != nil {
		if c, ok := ck.contracts[o.String()]; ok {
			return c
		}
	}
	return nil
}

func (ck *Checker) findExtern(names []string) *FuncContract {
	// exact matches win over wildcard matches; later files override earlier ones
	// names are ordered from the most specific (the static callee / receiver interface) to the most general
	// (the interface that declares the method): the most specific name that has an extern decides
	for _, n := range names {
		for i := len(ck.externs) - 1; i >= 0; i-- {
			if ck.externs[i].Name == n {
				return ck.externs[i]
			}
		}
	}
	for i := len(ck.externs) - 1; i >= 0; i-- {
		e := ck.externs[i]
		if strings.HasSuffix(e.Name, "*") && patMatch(e.Name, names) {
			return e
		}
	}
	return nil
}

func (ck *Checker) noteHavocCall(fn, callee string) {
	if ck.havocCalls[fn] == nil {
		ck.havocCalls[fn] = map[string]bool{}
	}
	ck.havocCalls[fn][callee] = true
}

func (ck *Checker) noteExtern(fn string, c *FuncContract) {
	ck.externUsed[c.Name] = c
}

// load type-checks the given packages (with the verif tag) and builds SSA in naive form.
func (ck *Checker) load(patterns []string) error {
	cfg := &packages.Config{
		Mode:       packages.LoadSyntax,
		Dir:        ck.repo,
		BuildFlags: []string{"-tags=verif"},
		Env:        append(os.Environ(), "GOFLAGS=-mod=mod", "GOPROXY=off", "GOSUMDB=off", "GOTOOLCHAIN=local"),
	}
	pkgs, err := packages.Load(cfg, patterns...)
	if err != nil {
		return err
	}
	ck.pkgs = map[string]*packages.Package{}
	var errs []string
	for _, p := range pkgs {
		for _, e := range p.Errors {
			errs = append(errs, e.Error())
		}
		ck.pkgs[p.PkgPath] = p
	}
	if len(errs) > 0 {
		return fmt.Errorf("BUILD: packages do not type-check:\n%s", strings.Join(errs, "\n"))
	}
	prog, spkgs := ssautil.Packages(pkgs, ssa.NaiveForm|ssa.InstantiateGenerics)
	ck.prog = prog
	if len(pkgs) > 0 {
		ck.fset = pkgs[0].Fset
	}
	for _, sp := range spkgs {
		if sp != nil {
			sp.Build()
		}
	}
	return nil
}

func (ck *Checker) ssaPkgByPath(path string) *ssa.Package {
	for _, p := range ck.prog.AllPackages() {
		if p.Pkg.Path() == path {
			return p
		}
	}
	return nil
}

func (ck *Checker) pkgByName(name string) *types.Package {
	var best *types.Package
	for _, p := range ck.prog.AllPackages() {
		if p.Pkg.Name() == name {
			if best == nil || len(p.Pkg.Path()) < len(best.Path()) {
				best = p.Pkg
			}
		}
	}
	return best
}

func (ck *Checker) findGlobal(name string, pkg *ssa.Package) *ssa.Global {
	if i := strings.LastIndex(name, "."); i >= 0 {
		pn, vn := name[:i], name[i+1:]
		for _, p := range ck.prog.AllPackages() {
			if p.Pkg.Path() == pn || p.Pkg.Name() == pn {
				if g, ok := p.Members[vn].(*ssa.Global); ok {
					return g
				}
			}
		}
		return nil
	}
	if pkg != nil {
		if g, ok := pkg.Members[name].(*ssa.Global); ok {
			return g
		}
	}
	return nil
}

// findFunction locates the SSA function for a contract.
func (ck *Checker) findFunction(ctr *FuncContract) *ssa.Function {
	want := fullName(ctr.PkgPath, ctr.Name)
	sp := ck.ssaPkgByPath(ctr.PkgPath)
	if sp == nil {
		return nil
	}
	var found *ssa.Function
	var visit func(f *ssa.Function)
	visit = func(f *ssa.Function) {
		if f == nil || found != nil {
			return
		}
		if f.String() == want {
			found = f
			return
		}
		for _, a := range f.AnonFuncs {
			visit(a)
		}
	}
	for _, m := range sp.Members {
		switch m := m.(type) {
		case *ssa.Function:
			visit(m)
		case *ssa.Type:
			for _, t := range []types.Type{m.Type(), types.NewPointer(m.Type())} {
				ms := ck.prog.MethodSets.MethodSet(t)
				for i := 0; i < ms.Len(); i++ {
					visit(ck.prog.MethodValue(ms.At(i)))
				}
			}
		}
	}
	return found
}

func (ck *Checker) sourceOf(fn *ssa.Function) []byte {
	if fn.Syntax() == nil {
		return nil
	}
	name := ck.fset.Position(fn.Syntax().Pos()).Filename
	if b, ok := ck.srcCache[name]; ok {
		return b
	}
	b, _ := os.ReadFile(name)
	ck.srcCache[name] = b
	return b
}

func (ck *Checker) internString(s string) int {
	if id, ok := ck.strs[s]; ok {
		return id
	}
	id := 1000 + len(ck.strList)
	ck.strs[s] = id
	ck.strList = append(ck.strList, s)
	return id
}

func (ck *Checker) internType(t types.Type) int {
	k := typeKey(t)
	if id, ok := ck.typeIDs[k]; ok {
		return id
	}
	id := 1 + len(ck.typeIDs)
	ck.typeIDs[k] = id
	return id
}

// ---------------------------------------------------------------------
// type resolution for specifications

func (ck *Checker) resolveTypeString(s string, pkg *ssa.Package) (types.Type, error) {
	ex, err := parser.ParseExpr(s)
	if err != nil {
		return nil, fmt.Errorf("bad type %q: %v", s, err)
	}
	return ck.resolveTypeAST(ex, pkg)
}

func (ck *Checker) resolveTypeAST(ex ast.Expr, pkg *ssa.Package) (types.Type, error) {
	switch n := ex.(type) {
	case *ast.Ident:
		if n.Name == "real" {
			return types.Typ[types.Float64], nil
		}
		if n.Name == "set" {
			return setType, nil
		}
		if n.Name == "intmap" {
			return intmapType, nil
		}
		if o := types.Universe.Lookup(n.Name); o != nil {
			if tn, ok := o.(*types.TypeName); ok {
				return tn.Type(), nil
			}
		}
		if pkg != nil {
			if tn, ok := pkg.Pkg.Scope().Lookup(n.Name).(*types.TypeName); ok {
				return tn.Type(), nil
			}
		}
		return nil, fmt.Errorf("unknown type %s", n.Name)
	case *ast.SelectorExpr:
		id, ok := n.X.(*ast.Ident)
		if !ok {
			return nil, fmt.Errorf("bad qualified type")
		}
		var tp *types.Package
		if pkg != nil {
			for _, imp := range pkg.Pkg.Imports() {
				if imp.Name() == id.Name {
					tp = imp
				}
			}
		}
		if tp == nil {
			tp = ck.pkgByName(id.Name)
		}
		if tp == nil {
			return nil, fmt.Errorf("unknown package %s", id.Name)
		}
		if tn, ok := tp.Scope().Lookup(n.Sel.Name).(*types.TypeName); ok {
			return tn.Type(), nil
		}
		return nil, fmt.Errorf("unknown type %s.%s", id.Name, n.Sel.Name)
	case *ast.StarExpr:
		t, err := ck.resolveTypeAST(n.X, pkg)
		if err != nil {
			return nil, err
		}
		return types.NewPointer(t), nil
	case *ast.ArrayType:
		t, err := ck.resolveTypeAST(n.Elt, pkg)
		if err != nil {
			return nil, err
		}
		if n.Len == nil {
			return types.NewSlice(t), nil
		}
		if bl, ok := n.Len.(*ast.BasicLit); ok {
			var k int64
			fmt.Sscan(bl.Value, &k)
			return types.NewArray(t, k), nil
		}
	case *ast.MapType:
		k, err := ck.resolveTypeAST(n.Key, pkg)
		if err != nil {
			return nil, err
		}
		v, err := ck.resolveTypeAST(n.Value, pkg)
		if err != nil {
			return nil, err
		}
		return types.NewMap(k, v), nil
	case *ast.InterfaceType:
		return types.NewInterfaceType(nil, nil), nil
	case *ast.FuncType:
		return types.NewSignatureType(nil, nil, nil, nil, nil, false), nil
	case *ast.ParenExpr:
		return ck.resolveTypeAST(n.X, pkg)
	}
	return nil, fmt.Errorf("unsupported type expression %T", ex)
}

type specParam struct {
	name string
	t    types.Type
}

type specSigT struct {
	params []specParam
	ret    types.Type
}

// specSig resolves the signature of a spec function and declares it in the preamble of x.
func (ck *Checker) specSig(sf *SpecFunc, x *Exec) *specSigT {
	var pkg *ssa.Package
	if sf.PkgPath != "" {
		pkg = ck.ssaPkgByPath(sf.PkgPath)
	}
	sig, ok := ck.sigCache[sf.Name]
	if !ok {
		sig = &specSigT{}
		ft, err := parser.ParseExpr("func(" + sf.Params + ")")
		if err != nil {
			panic(fmt.Sprintf("%s:%d: bad parameters of spec function %s: %v", sf.File, sf.Line, sf.Name, err))
		}
		for _, fld := range ft.(*ast.FuncType).Params.List {
			t, err := ck.resolveTypeAST(fld.Type, pkg)
			if err != nil {
				panic(fmt.Sprintf("%s:%d: spec function %s: %v", sf.File, sf.Line, sf.Name, err))
			}
			for _, nm := range fld.Names {
				sig.params = append(sig.params, specParam{nm.Name, t})
			}
		}
		rt, err := ck.resolveTypeString(sf.Ret, pkg)
		if err != nil {
			panic(fmt.Sprintf("%s:%d: spec function %s: %v", sf.File, sf.Line, sf.Name, err))
		}
		sig.ret = rt
		ck.sigCache[sf.Name] = sig
	}
	sym := quoteSym("spec:" + sf.Name)
	if _, done := x.pre.seen[sym]; done {
		return sig
	}
	retSort := flatten(sig.ret)[0].Sort
	var decl []string
	var sorts []string
	vars := map[string]Value{}
	for _, p := range sig.params {
		leaves := flatten(p.t)
		v := Value{T: p.t, L: make([]Term, len(leaves))}
		for k, l := range leaves {
			nm := quoteSym("a!" + p.name + l.Path)
			decl = append(decl, "("+nm+" "+l.Sort+")")
			sorts = append(sorts, l.Sort)
			v.L[k] = Term{nm, l.Sort}
		}
		vars[p.name] = v
	}
	if sf.Body == "" {
		x.pre.declare(sym, "(declare-fun "+sym+" ("+strings.Join(sorts, " ")+") "+retSort+")")
		return sig
	}
	// reserve the name first so that recursive uses resolve
	if sf.Rec {
		x.pre.seen[sym] = ""
	}
	env := &Env{x: x, st: x.entryOrEmpty(), vars: vars, lemma: true, pkg: pkg}
	body, err := env.evalString(sf.Body)
	if err != nil {
		panic(fmt.Sprintf("%s:%d: spec function %s: %v", sf.File, sf.Line, sf.Name, err))
	}
	bt := body.one()
	if retSort == sReal && bt.Sort == sInt {
		bt = app("to_real", sReal, bt)
	}
	kw := "define-fun"
	if sf.Rec {
		kw = "define-fun-rec"
		delete(x.pre.seen, sym)
	}
	x.pre.declare(sym, "("+kw+" "+sym+" ("+strings.Join(decl, " ")+") "+retSort+" "+bt.S+")")
	return sig
}

func (x *Exec) entryOrEmpty() *State {
	if x.entry != nil {
		return x.entry
	}
	return &State{regs: map[ssa.Value]Value{}, cells: map[int]Value{}, cellOf: map[*ssa.Alloc]int{}, heap: map[string]Term{}, ghost: map[string]Value{}, inLoop: map[int]bool{}, loopPre: map[int]*State{}, top: tZero}
}

// constGlobal: an unexported package-level variable of basic type whose only write in its package is the constant
// initializer in init and whose address is never taken is a constant in all but name; loads of it yield that constant.
// (Only the declaring package can name an unexported variable, and its non-test files are all in the program.)
func (ck *Checker) constGlobal(g *ssa.Global) *ssa.Const {
	if g.Pkg == nil || g.Object() == nil || g.Object().Exported() {
		return nil
	}
	if _, ok := g.Type().Underlying().(*types.Pointer).Elem().Underlying().(*types.Basic); !ok {
		return nil
	}
	if ck.constGlobals == nil {
		ck.constGlobals = map[*ssa.Package]map[*ssa.Global]*ssa.Const{}
	}
	m, ok := ck.constGlobals[g.Pkg]
	if !ok {
		m = map[*ssa.Global]*ssa.Const{}
		bad := map[*ssa.Global]bool{}
		var visit func(fn *ssa.Function)
		seen := map[*ssa.Function]bool{}
		visit = func(fn *ssa.Function) {
			if fn == nil || seen[fn] {
				return
			}
			seen[fn] = true
			isInit := fn == g.Pkg.Func("init")
			for _, b := range fn.Blocks {
				for _, ins := range b.Instrs {
					if st, ok := ins.(*ssa.Store); ok {
						if sg, ok := st.Addr.(*ssa.Global); ok {
							if c, isC := st.Val.(*ssa.Const); isC && isInit && m[sg] == nil && !bad[sg] {
								m[sg] = c
							} else {
								bad[sg] = true
							}
							if vg, ok := st.Val.(*ssa.Global); ok {
								bad[vg] = true
							}
							continue
						}
					}
					if u, ok := ins.(*ssa.UnOp); ok && u.Op == token.MUL {
						if _, ok := u.X.(*ssa.Global); ok {
							continue
						}
					}
					for _, op := range ins.Operands(nil) {
						if op != nil && *op != nil {
							if og, ok := (*op).(*ssa.Global); ok {
								bad[og] = true
							}
						}
					}
				}
			}
			for _, an := range fn.AnonFuncs {
				visit(an)
			}
		}
		for _, mem := range g.Pkg.Members {
			switch mm := mem.(type) {
			case *ssa.Function:
				visit(mm)
			case *ssa.Type:
				for _, t := range []types.Type{mm.Type(), types.NewPointer(mm.Type())} {
					ms := ck.prog.MethodSets.MethodSet(t)
					for i := 0; i < ms.Len(); i++ {
						visit(ck.prog.MethodValue(ms.At(i)))
					}
				}
			}
		}
		for bg := range bad {
			delete(m, bg)
		}
		ck.constGlobals[g.Pkg] = m
	}
	return m[g]
}
