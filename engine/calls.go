package main

import (
	"fmt"
	"go/types"
	"sort"
	"strings"

	"golang.org/x/tools/go/ssa"
)

// calleeNames lists the names under which a call can be matched by patterns.
func (x *Exec) calleeNames(c *ssa.CallCommon) []string {
	var out []string
	if c.IsInvoke() {
		rt := c.Value.Type()
		out = append(out, "invoke "+typeKey(rt)+"."+c.Method.Name())
		// also the declaring interface of the method (e.g. embedded io.Writer)
		if fn, ok := c.Method.Type().(*types.Signature); ok && fn.Recv() != nil {
			out = append(out, "invoke "+typeKey(fn.Recv().Type())+"."+c.Method.Name())
		}
		// short form with package name only, and relative to the current package
		out = append(out, "invoke "+shortType(rt)+"."+c.Method.Name())
		if x.fn != nil && x.fn.Pkg != nil {
			out = append(out, "invoke "+types.TypeString(rt, types.RelativeTo(x.fn.Pkg.Pkg))+"."+c.Method.Name())
		}
		return out
	}
	switch f := c.Value.(type) {
	case *ssa.Function:
		out = append(out, f.String())
		if f.Pkg != nil && f.Pkg == x.fn.Pkg {
			out = append(out, f.RelString(f.Pkg.Pkg))
		}
		if f.Pkg != nil {
			// pkgname-qualified short form: (*os.File).WriteAt, signinit.PublishAudit
			out = append(out, shortFuncName(f))
		}
		if f.Origin() != nil {
			out = append(out, f.Origin().String())
		}
	case *ssa.Builtin:
		out = append(out, "builtin "+f.Name())
	case *ssa.MakeClosure:
		if fn, ok := f.Fn.(*ssa.Function); ok {
			out = append(out, fn.String())
		}
	default:
		if mc := x.staticClosure(c); mc != nil {
			if fn, ok := mc.Fn.(*ssa.Function); ok {
				out = append(out, fn.String())
			}
		}
		out = append(out, "dynamic")
		// calling a func-typed field or variable: name it
		if u, ok := c.Value.(*ssa.UnOp); ok {
			switch a := u.X.(type) {
			case *ssa.FieldAddr:
				st := a.X.Type().Underlying().(*types.Pointer).Elem().Underlying().(*types.Struct)
				out = append(out, "dynamic ."+st.Field(a.Field).Name())
			case *ssa.Alloc:
				out = append(out, "dynamic "+a.Comment)
			case *ssa.Global:
				out = append(out, "dynamic "+a.String())
			}
		}
	}
	return out
}

func shortFuncName(f *ssa.Function) string {
	if f.Signature.Recv() != nil {
		rt := f.Signature.Recv().Type()
		return "(" + shortType(rt) + ")." + f.Name()
	}
	if f.Pkg != nil {
		return f.Pkg.Pkg.Name() + "." + f.Name()
	}
	return f.Name()
}

func patMatch(pat string, names []string) bool {
	for _, n := range names {
		if pat == n {
			return true
		}
		if strings.HasSuffix(pat, "*") && strings.HasPrefix(n, strings.TrimSuffix(pat, "*")) {
			return true
		}
	}
	return false
}

func (x *Exec) eventMatches(ev *Event, c *ssa.CallCommon) bool {
	return patMatch(ev.Pattern, x.calleeNames(c))
}

// findContract returns the contract that governs a call, or nil.
func (x *Exec) findContract(c *ssa.CallCommon) *FuncContract {
	names := x.calleeNames(c)
	if f, ok := c.Value.(*ssa.Function); ok {
		if ctr := x.ck.contractOf(f); ctr != nil && !ctr.Standalone {
			return ctr
		}
	}
	if mc := x.staticClosure(c); mc != nil {
		if f, ok := mc.Fn.(*ssa.Function); ok {
			if ctr := x.ck.contractOf(f); ctr != nil {
				return ctr
			}
		}
	}
	return x.ck.findExtern(names)
}

type effects struct {
	all       bool
	heap      []string
	localArgs []ssa.Value
}

// callEffects gives a static (type-level) over-approximation of what a call may modify.
func (x *Exec) callEffects(c *ssa.CallCommon) effects {
	var e effects
	if b, ok := c.Value.(*ssa.Builtin); ok {
		switch b.Name() {
		case "append", "copy":
			if sl, ok := c.Args[0].Type().Underlying().(*types.Slice); ok {
				for _, lf := range flatten(sl.Elem()) {
					n := heapName("M", sl.Elem(), lf.Path)
					x.heapInfo[n] = heapMeta{"M", sl.Elem(), lf}
					e.heap = append(e.heap, n)
				}
			}
		case "delete":
			mt := c.Args[0].Type().Underlying().(*types.Map)
			if ks := flatten(mt.Key()); len(ks) == 1 {
				x.mapInfo["MapD:"+typeKey(mt)] = arrSort(arrSortK(ks[0].Sort, sBool))
				for _, lf := range flatten(mt.Elem()) {
					x.mapInfo["MapV:"+typeKey(mt)+":"+lf.Path] = arrSort(arrSortK(ks[0].Sort, lf.Sort))
				}
			}
			e.heap = append(e.heap, mapHeapNames(mt)...)
		case "clear":
			e.all = true
		}
		return e
	}
	ctr := x.findContract(c)
	args := c.Args
	for _, a := range args {
		if isPointer(a.Type()) {
			switch a.(type) {
			case *ssa.Alloc, *ssa.FieldAddr, *ssa.IndexAddr:
				e.localArgs = append(e.localArgs, a)
			}
		}
	}
	if ctr == nil {
		e.all = true
		return e
	}
	if ctr.Pure {
		e.localArgs = nil
		return e
	}
	if ctr.Neutral && !ctr.ReadOnly {
		// the objects directly behind pointer arguments (receiver included) may change
		ptrArgs := append([]ssa.Value(nil), c.Args...)
		if c.IsInvoke() {
			ptrArgs = nil // the receiver of an interface method is behind an interface value: not tracked
		}
		for _, a := range ptrArgs {
			pt, ok := a.Type().Underlying().(*types.Pointer)
			if !ok {
				continue
			}
			if _, isStruct := pt.Elem().Underlying().(*types.Struct); !isStruct {
				continue
			}
			switch a.(type) {
			case *ssa.Alloc, *ssa.FieldAddr, *ssa.IndexAddr:
				continue // handled through localArgs
			}
			for _, lf := range flatten(pt.Elem()) {
				nm := heapName("H", pt.Elem(), lf.Path)
				x.heapInfo[nm] = heapMeta{"H", pt.Elem(), lf}
				e.heap = append(e.heap, nm)
			}
		}
	}
	if ctr.Neutral && !ctr.HasMod {
		return e
	}
	if !ctr.HasMod {
		e.all = true
		return e
	}
	// type-level keys for modifies clauses
	for _, m := range ctr.Modifies {
		names, ok := x.modifiesKeys(ctr, c, m)
		if !ok {
			e.all = true
			return e
		}
		e.heap = append(e.heap, names...)
	}
	return e
}

// modifiesKeys maps a modifies l-value of a callee contract to heap array names (type level).
func (x *Exec) modifiesKeys(ctr *FuncContract, c *ssa.CallCommon, m string) ([]string, bool) {
	m = strings.TrimSpace(m)
	if strings.HasPrefix(m, "global ") {
		// global pkg.Var
		g := x.ck.findGlobal(strings.TrimSpace(m[7:]), x.calleePkg(c))
		if g == nil {
			return nil, false
		}
		el := g.Type().Underlying().(*types.Pointer).Elem()
		var out []string
		for _, lf := range flatten(el) {
			n := heapName("H", el, lf.Path)
			x.heapInfo[n] = heapMeta{"H", el, lf}
			out = append(out, n)
		}
		return out, true
	}
	if strings.HasPrefix(m, "sink ") {
		var out []string
		name := strings.TrimSpace(m[5:])
		for i, pn := range x.paramNames(ctr, c) {
			if pn != name {
				continue
			}
			var av ssa.Value
			if c.IsInvoke() {
				if i == 0 {
					av = c.Value
				} else if i-1 < len(c.Args) {
					av = c.Args[i-1]
				}
			} else if i < len(c.Args) {
				av = c.Args[i]
			}
			if mi, ok := av.(*ssa.MakeInterface); ok {
				if pt, ok := mi.X.Type().Underlying().(*types.Pointer); ok {
					for _, lf := range flatten(pt.Elem()) {
						nm := heapName("H", pt.Elem(), lf.Path)
						x.heapInfo[nm] = heapMeta{"H", pt.Elem(), lf}
						out = append(out, nm)
					}
					if fa, ok := mi.X.(*ssa.FieldAddr); ok {
						if off, n, _, base, ok := x.staticFieldPath(fa); ok {
							leaves := flatten(base)
							for j := off; j < off+n && j < len(leaves); j++ {
								nm := heapName("H", base, leaves[j].Path)
								x.heapInfo[nm] = heapMeta{"H", base, leaves[j]}
								out = append(out, nm)
							}
						}
					}
				}
			}
		}
		more, _ := x.modifiesKeys(ctr, c, "any bytes.Buffer")
		more2, _ := x.modifiesKeys(ctr, c, "any bytes.Reader")
		return append(append(out, more...), more2...), true
	}
	if strings.HasPrefix(m, "any ") {
		var out []string
		for _, h := range x.anyRegions(m[4:], x.calleePkg(c)) {
			leaves := flatten(h.base)
			for _, kind := range []string{"H", "M"} {
				for j := h.lo; j < h.hi; j++ {
					nm := heapName(kind, h.base, leaves[j].Path)
					x.heapInfo[nm] = heapMeta{kind, h.base, leaves[j]}
					out = append(out, nm)
				}
			}
		}
		return out, true
	}
	isMem := false
	if strings.HasPrefix(m, "mem(") && strings.HasSuffix(m, ")") {
		isMem = true
		m = m[4 : len(m)-1]
	}
	if strings.HasPrefix(m, "map(") && strings.HasSuffix(m, ")") {
		return nil, false // coarse: treated as "may modify anything" when summarising loop effects
	}
	// resolve the static type of the l-value: param.field.field
	parts := strings.Split(m, ".")
	pt := x.paramType(ctr, c, parts[0])
	if pt == nil {
		return nil, false
	}
	var base types.Type
	off, n := 0, 0
	cur := pt
	if len(parts) == 1 {
		if isMem {
			if sl, ok := cur.Underlying().(*types.Slice); ok {
				var out []string
				for _, lf := range flatten(sl.Elem()) {
					nm := heapName("M", sl.Elem(), lf.Path)
					x.heapInfo[nm] = heapMeta{"M", sl.Elem(), lf}
					out = append(out, nm)
				}
				return out, true
			}
			return nil, false
		}
		// *p : whole pointee
		if p, ok := cur.Underlying().(*types.Pointer); ok {
			var out []string
			for _, lf := range flatten(p.Elem()) {
				nm := heapName("H", p.Elem(), lf.Path)
				x.heapInfo[nm] = heapMeta{"H", p.Elem(), lf}
				out = append(out, nm)
			}
			return out, true
		}
		return nil, false
	}
	for _, f := range parts[1:] {
		if p, ok := cur.Underlying().(*types.Pointer); ok {
			cur = p.Elem()
			base = cur
			off = 0
		}
		stt, ok := cur.Underlying().(*types.Struct)
		if !ok {
			return nil, false
		}
		found := false
		for i := 0; i < stt.NumFields(); i++ {
			if stt.Field(i).Name() == f {
				o, cnt := fieldRange(stt, i)
				off += o
				n = cnt
				cur = stt.Field(i).Type()
				found = true
				break
			}
		}
		if !found {
			return nil, false
		}
	}
	if base == nil {
		return nil, false
	}
	var out []string
	if isMem {
		sl, ok := cur.Underlying().(*types.Slice)
		if !ok {
			return nil, false
		}
		for _, lf := range flatten(sl.Elem()) {
			nm := heapName("M", sl.Elem(), lf.Path)
			x.heapInfo[nm] = heapMeta{"M", sl.Elem(), lf}
			out = append(out, nm)
		}
		return out, true
	}
	leaves := flatten(base)
	for j := off; j < off+n; j++ {
		nm := heapName("H", base, leaves[j].Path)
		x.heapInfo[nm] = heapMeta{"H", base, leaves[j]}
		out = append(out, nm)
	}
	return out, true
}

func (x *Exec) calleePkg(c *ssa.CallCommon) *ssa.Package {
	if f, ok := c.Value.(*ssa.Function); ok && f.Pkg != nil {
		return f.Pkg
	}
	return x.fn.Pkg
}

// paramNames returns the names by which a contract refers to the callee's parameters (receiver first).
func (x *Exec) paramNames(ctr *FuncContract, c *ssa.CallCommon) []string {
	if len(ctr.Params) > 0 {
		return ctr.Params
	}
	var f *ssa.Function
	switch v := c.Value.(type) {
	case *ssa.Function:
		f = v
	case *ssa.MakeClosure:
		f, _ = v.Fn.(*ssa.Function)
	default:
		if mc := x.staticClosure(c); mc != nil {
			f, _ = mc.Fn.(*ssa.Function)
		}
	}
	var out []string
	if f != nil && !c.IsInvoke() {
		if len(f.Params) > 0 {
			for _, p := range f.Params {
				out = append(out, p.Name())
			}
			return out
		}
		// external function: parameter names from the signature
		sig := f.Signature
		if sig.Recv() != nil {
			out = append(out, sig.Recv().Name())
		}
		for i := 0; i < sig.Params().Len(); i++ {
			out = append(out, sig.Params().At(i).Name())
		}
		return out
	}
	if c.IsInvoke() {
		out = append(out, "recv")
		sig := c.Method.Type().(*types.Signature)
		for i := 0; i < sig.Params().Len(); i++ {
			n := sig.Params().At(i).Name()
			if n == "" || n == "_" {
				n = fmt.Sprintf("arg%d", i)
			}
			out = append(out, n)
		}
	}
	return out
}

func (x *Exec) paramType(ctr *FuncContract, c *ssa.CallCommon, name string) types.Type {
	names := x.paramNames(ctr, c)
	var tys []types.Type
	if c.IsInvoke() {
		tys = append(tys, c.Value.Type())
	}
	for _, a := range c.Args {
		tys = append(tys, a.Type())
	}
	for i, n := range names {
		if n == name && i < len(tys) {
			return tys[i]
		}
	}
	return nil
}

func (x *Exec) evalCallArgs(st *State, c *ssa.CallCommon) []Value {
	var args []Value
	if c.IsInvoke() {
		args = append(args, x.operand(st, c.Value))
	}
	for _, a := range c.Args {
		args = append(args, x.operand(st, a))
	}
	return args
}

func resultType(c *ssa.CallCommon) types.Type {
	sig := c.Signature()
	res := sig.Results()
	switch res.Len() {
	case 0:
		return types.NewTuple()
	case 1:
		return res.At(0).Type()
	}
	return res
}

// splitResults splits a call result into its components.
func splitResults(v Value) []Value {
	if tp, ok := v.T.(*types.Tuple); ok {
		var out []Value
		for i := 0; i < tp.Len(); i++ {
			off, n := tupleRange(tp, i)
			out = append(out, Value{T: tp.At(i).Type(), L: v.L[off : off+n]})
		}
		return out
	}
	if len(v.L) == 0 {
		return nil
	}
	return []Value{v}
}

func (x *Exec) doCall(st *State, ins ssa.Instruction, c *ssa.CallCommon, d *deferred) Value {
	var args []Value
	if d != nil {
		args = d.args
	} else {
		args = x.evalCallArgs(st, c)
	}
	names := x.calleeNames(c)
	// before-call events
	for _, ev := range x.ctrEvents() {
		if ev.Kind != "before" || !patMatch(ev.Pattern, names) {
			continue
		}
		env := x.newEnv(st)
		env.spos = ins.Pos()
		x.bindEventArgs(env, ev, args, nil)
		for k, cl := range ev.Asserts {
			t, err := env.evalBool(cl.Expr)
			if err != nil {
				panic(fmt.Sprintf("%s:%d: before call: %v", cl.File, cl.Line, err))
			}
			label := cl.Label
			if label == "" {
				label = fmt.Sprintf("%s#%d.%d", ev.Pattern, ev.Ordinal, k)
			}
			x.oblige(st, "before", label, t, ins.Pos(), cl.Expr)
		}
	}
	var callPre *State
	for _, ev := range x.ctrEvents() {
		if ev.Kind == "on" && patMatch(ev.Pattern, names) {
			callPre = st.clone()
			break
		}
	}
	var res Value
	if _, isB := c.Value.(*ssa.Builtin); !isB {
		for _, a := range args {
			st.escape(a)
		}
	}
	if b, ok := c.Value.(*ssa.Builtin); ok {
		res = x.doBuiltin(st, ins, b, c, args)
	} else {
		res = x.applyCallee(st, ins, c, args, names)
	}
	if st.dead {
		return res
	}
	// after-call events
	rets := splitResults(res)
	for _, ev := range x.ctrEvents() {
		if ev.Kind != "on" || !patMatch(ev.Pattern, names) {
			continue
		}
		env := x.newEnv(st)
		env.callPre = callPre
		env.spos = ins.Pos()
		x.bindEventArgs(env, ev, args, rets)
		// statements run in the order written; later ones see earlier assignments
		nAssert := 0
		for _, stmt := range ev.Stmts {
			if stmt.IsAssume {
				// only for calls whose callee is external to the verified code
				cl := stmt.C
				if ctrC := x.findContract(c); ctrC != nil && !ctrC.Extern {
					panic(fmt.Sprintf("%s:%d: assume is only allowed on calls of external functions", cl.File, cl.Line))
				}
				t, err := env.evalBool(cl.Expr)
				if err != nil {
					panic(fmt.Sprintf("%s:%d: on call assume: %v", cl.File, cl.Line, err))
				}
				x.assumptions[fmt.Sprintf("assumed about external call %s in %s: %s", ev.Pattern, x.funcName(), cl.Expr)] = true
				st.assume(t)
				continue
			}
			if stmt.IsAssert {
				cl := stmt.C
				t, err := env.evalBool(cl.Expr)
				if err != nil {
					panic(fmt.Sprintf("%s:%d: on call assert: %v", cl.File, cl.Line, err))
				}
				label := cl.Label
				if label == "" {
					label = fmt.Sprintf("%s#%d.%d", ev.Pattern, ev.Ordinal, nAssert)
				}
				nAssert++
				x.oblige(st, "after", label, t, ins.Pos(), cl.Expr)
				continue
			}
			a := stmt.A
			old, ok := st.ghost[a.Var]
			if !ok {
				panic(fmt.Sprintf("%s: event assigns undeclared ghost %q", x.funcName(), a.Var))
			}
			nv, err := env.evalString(a.Expr)
			if err != nil {
				panic(fmt.Sprintf("%s: event %s: %s = %s: %v", x.funcName(), ev.Pattern, a.Var, a.Expr, err))
			}
			st.ghost[a.Var] = coerce(nv, old.T)
			env = x.newEnv(st)
			env.callPre = callPre
			env.spos = ins.Pos()
			x.bindEventArgs(env, ev, args, rets)
		}
	}
	return res
}

func (x *Exec) bindEventArgs(env *Env, ev *Event, args []Value, rets []Value) {
	for i, n := range ev.Args {
		if n == "_" || n == "" {
			continue
		}
		if i < len(args) {
			env.vars[n] = args[i]
		}
	}
	for i, n := range ev.Rets {
		if n == "_" || n == "" {
			continue
		}
		if i < len(rets) {
			env.vars[n] = rets[i]
		}
	}
}

// applyCallee applies a contract (or havoc) for a non-builtin call.
func (x *Exec) applyCallee(st *State, ins ssa.Instruction, c *ssa.CallCommon, args []Value, names []string) Value {
	rt := resultType(c)
	if c.IsInvoke() && len(args) > 0 {
		// calling a method on a nil interface value panics
		x.safety(st, "nilinvoke", ins, mkNot(mkEq(args[0].L[0], tZero)), "method call on nil interface value")
		if st.dead {
			return x.freshValue(st, "noret", rt)
		}
	}
	ctr := x.findContract(c)
	if len(x.views) > 0 {
		mayWrite := ctr == nil
		if ctr != nil && !ctr.Pure && !ctr.ReadOnly {
			for _, m := range ctr.Modifies {
				if strings.Contains(m, "mem(") || strings.HasPrefix(strings.TrimSpace(m), "*") {
					mayWrite = true
				}
			}
			if !ctr.Neutral && !ctr.HasMod {
				mayWrite = true
			}
		}
		if mayWrite {
			for _, a := range args {
				if a.T != nil && isSlice(a.T) && len(a.L) >= 1 && x.views[a.sliceArr().S] != nil {
					panic(unsupported{"UNSUPPORTED a slice of an array embedded in another object is passed to a callee that may write to it (" + names[0] + ") in " + x.funcName()})
				}
			}
		}
	}
	x.frameCall(st, ins, c, ctr, args, names[0])
	if ctr == nil {
		x.ck.noteHavocCall(x.funcName(), names[0])
		x.havocPointees(st, c, args)
		x.havocAllHeap(st)
		return x.freshValue(st, "ret_"+shortCallee(names[0]), rt)
	}
	if ctr.Extern {
		x.ck.noteExtern(x.funcName(), ctr)
	}
	pnames := x.paramNames(ctr, c)
	bind := func(env *Env) {
		for i, n := range pnames {
			if i < len(args) && n != "_" && n != "" {
				env.vars[n] = args[i]
			}
		}
	}
	// requires
	for k, cl := range ctr.Requires {
		env := x.newCalleeEnv(st, ctr, c)
		bind(env)
		t, err := env.evalBool(cl.Expr)
		if err != nil {
			panic(fmt.Sprintf("%s:%d: requires at call in %s: %v", cl.File, cl.Line, x.funcName(), err))
		}
		label := cl.Label
		if label == "" {
			label = fmt.Sprint(k)
		}
		x.oblige(st, "requires", fmt.Sprintf("%s@%d.%s", shortCallee(names[0]), x.ordinals[ins], label), t, ins.Pos(), cl.Expr)
		st.assume(t)
	}
	// calls that never return end the path here
	for _, cl := range ctr.NoReturn {
		env := x.newCalleeEnv(st, ctr, c)
		bind(env)
		t, err := env.evalBool(cl.Expr)
		if err != nil {
			panic(fmt.Sprintf("%s:%d: noreturn at call in %s: %v", cl.File, cl.Line, x.funcName(), err))
		}
		if t.S == "true" {
			st.trace = append(st.trace, -3)
			x.pathEnd(st, "call never returns")
			st.dead = true
			return x.freshValue(st, "noret", rt)
		}
		if t.S != "false" {
			st2 := st.clone()
			st2.assume(t)
			st2.trace = append(st2.trace, -3)
			x.pathEnd(st2, "call never returns")
			st.assume(mkNot(t))
		}
	}
	pre := st.clone()
	var res Value
	if !ctr.Pure {
		x.bumpTop(st) // the callee may allocate
	}
	switch {
	case ctr.Pure:
		var flat []Term
		for _, a := range args {
			flat = append(flat, a.L...)
		}
		leaves := flatten(rt)
		res = Value{T: rt, L: make([]Term, len(leaves))}
		for k, lf := range leaves {
			res.L[k] = x.uf(fmt.Sprintf("pure:%s:%d", names[0], k), lf.Sort, flat...)
		}
		st.assumeAll(typeFacts(res))
	default:
		if !ctr.Neutral {
			if !ctr.HasMod {
				x.havocPointees(st, c, args)
				x.havocAllHeap(st)
			} else {
				for _, m := range ctr.Modifies {
					env := x.newCalleeEnv(pre, ctr, c)
					bind(env)
					if !x.tryHavocLvalue(st, m, env) {
						// the location cannot be resolved (e.g. pointer hidden in an unknown interface value)
						x.havocPointees(st, c, args)
						x.havocAllHeap(st)
					}
				}
			}
		} else {
			// neutral: only cells/objects directly pointed to by pointer arguments; memory of slice
			// arguments is NOT modified (read-like externs must say `modifies mem(buf)`)
			if !ctr.ReadOnly {
				x.havocPointeesOnly(st, c, args)
			}
			// ... plus whatever an explicit modifies clause adds
			for _, m := range ctr.Modifies {
				env := x.newCalleeEnv(pre, ctr, c)
				bind(env)
				if !x.tryHavocLvalue(st, m, env) {
					x.havocPointees(st, c, args)
					x.havocAllHeap(st)
				}
			}
		}
		res = x.freshValue(st, "ret_"+shortCallee(names[0]), rt)
		if ctr.Sticky && len(res.L) == 1 {
			key := "!sticky:" + names[0]
			for _, a := range args {
				for _, l := range a.L {
					key += ":" + l.S
				}
			}
			if last, ok := st.ghost[key]; ok {
				st.assume(mkImplies(mkNot(mkEq(last.L[0], zeroTerm(last.L[0].Sort))), mkEq(res.L[0], last.L[0])))
			}
			st.ghost[key] = res
		}
	}
	rets := splitResults(res)
	for _, fr := range ctr.Fresh {
		idx := retIndex(fr, ctr)
		if idx >= 0 && idx < len(rets) {
			// a freshly allocated result: newer than everything that existed before the call
			st.assume(mkOr(mkEq(rets[idx].L[0], tZero), mkCmp(">", rets[idx].L[0], pre.top)))
			st.allocs = append(st.allocs, rets[idx].L[0])
			nt := x.fresh(st, "top", sInt)
			st.assume(mkAnd(mkCmp(">=", nt, st.top), mkCmp(">=", nt, rets[idx].L[0])))
			st.top = nt
		}
	}
	for _, w := range ctr.Wraps {
		env := x.newCalleeEnv(st, ctr, c)
		bind(env)
		env.oldState = pre
		env.rets = rets
		env.atReturn = true
		env.retNames = ctr.Results
		wv, err1 := env.evalString(w[0])
		iv, err2 := env.evalString(w[1])
		if err1 != nil || err2 != nil || len(wv.L) == 0 || len(iv.L) != 1 {
			panic(fmt.Sprintf("%s: wraps %s %s at call in %s cannot be evaluated", ctr.Name, w[0], w[1], x.funcName()))
		}
		if st.sinkOf == nil {
			st.sinkOf = map[string]Value{}
		}
		st.sinkOf[wv.L[0].S] = iv
	}
	// callee ghost variables are existential for the caller
	for _, cl := range ctr.Ensures {
		env := x.newCalleeEnv(st, ctr, c)
		bind(env)
		env.oldState = pre
		env.rets = rets
		env.atReturn = true
		env.retNames = ctr.Results
		if fn, ok := c.Value.(*ssa.Function); ok && len(ctr.Results) == 0 {
			env.retNames = namedResults(fn)
		}
		env.calleeGhost = map[string]Value{}
		for _, g := range ctr.Ghosts {
			t, err := x.ck.resolveTypeString(g.Type, x.calleePkg(c))
			if err != nil {
				continue
			}
			env.calleeGhost[g.Name] = x.freshValue(st, "cghost_"+g.Name, t)
		}
		t, err := env.evalBool(cl.Expr)
		if err != nil {
			// clauses over the callee's locals are not visible to callers: assume nothing
			if strings.Contains(err.Error(), "unknown identifier") {
				continue
			}
			panic(fmt.Sprintf("%s:%d: ensures at call in %s: %v", cl.File, cl.Line, x.funcName(), err))
		}
		st.assume(t)
	}
	return res
}

func retIndex(name string, ctr *FuncContract) int {
	name = strings.TrimSpace(name)
	if strings.HasPrefix(name, "ret") {
		var k int
		if _, err := fmt.Sscanf(name, "ret%d", &k); err == nil {
			return k
		}
	}
	for i, r := range ctr.Results {
		if r == name {
			return i
		}
	}
	return -1
}

func namedResults(fn *ssa.Function) []string {
	var out []string
	res := fn.Signature.Results()
	for i := 0; i < res.Len(); i++ {
		out = append(out, res.At(i).Name())
	}
	return out
}

func shortCallee(n string) string {
	if i := strings.LastIndex(n, "/"); i >= 0 {
		// keep a leading "(*" if present
		pre := ""
		if strings.HasPrefix(n, "(*") {
			pre = "(*"
		} else if strings.HasPrefix(n, "(") {
			pre = "("
		} else if strings.HasPrefix(n, "invoke ") {
			pre = "invoke "
		}
		return pre + n[i+1:]
	}
	return n
}

func (x *Exec) havocPointees(st *State, c *ssa.CallCommon, args []Value) {
	x.havocPointeesOnly(st, c, args)
	// slices passed to unknown callees may be written through
	for _, a := range args {
		if sl, ok := a.T.Underlying().(*types.Slice); ok && len(a.L) == 4 {
			for _, lf := range flatten(sl.Elem()) {
				cur := x.heapCurE(st, "M", sl.Elem(), lf)
				x.heapSet(st, "M", sl.Elem(), lf, mkStore(cur, a.sliceArr(), x.fresh(st, "outarg_mem", arrSort(lf.Sort))))
			}
		}
	}
}

// havocPointeesOnly forgets local cells (and heap objects) directly pointed to by pointer arguments.
func (x *Exec) havocPointeesOnly(st *State, c *ssa.CallCommon, args []Value) {
	for _, a := range args {
		if a.P == nil && a.T != nil && isPointer(a.T) && len(a.L) == 1 {
			// a pointer without known structure (loaded, or returned by a call): the object of its static type
			if _, isStruct := a.T.Underlying().(*types.Pointer).Elem().Underlying().(*types.Struct); isStruct {
				a.P = x.deref(a)
			}
		}
		if a.P == nil {
			continue
		}
		p := a.P
		switch p.Kind {
		case pLocal:
			cell := st.cells[p.Cell]
			n := len(flatten(p.Sub))
			nl := append([]Term(nil), cell.L...)
			fv := x.freshValue(st, fmt.Sprintf("outarg_cell%d", p.Cell), p.Sub)
			for j := 0; j < n; j++ {
				if len(p.ArrIdx) > 0 {
					nl[p.Off+j] = x.fresh(st, "outarg_arr", nl[p.Off+j].Sort)
				} else {
					nl[p.Off+j] = fv.L[j]
				}
			}
			cell.L = nl
			st.cells[p.Cell] = cell
		case pHeap:
			fv := x.freshValue(st, "outarg_heap", p.Sub)
			if len(p.ArrIdx) == 0 {
				x.store(st, p, fv)
			}
		case pElem:
			fv := x.freshValue(st, "outarg_elem", p.Sub)
			if len(p.ArrIdx) == 0 {
				x.store(st, p, fv)
			}
		case pArr:
			for _, lf := range flatten(p.Base) {
				cur := x.heapCurE(st, "M", p.Base, lf)
				x.heapSet(st, "M", p.Base, lf, mkStore(cur, p.Obj, x.fresh(st, "outarg_arr", arrSort(lf.Sort))))
			}
		}
	}
}

// havocLvalueIn havocs the location denoted by l-value text m, with names resolved in env (pre-state).
func (x *Exec) havocLvalueIn(st *State, m string, env *Env) {
	m = strings.TrimSpace(m)
	if strings.HasPrefix(m, "global ") {
		g := x.ck.findGlobal(strings.TrimSpace(m[7:]), env.pkg)
		if g == nil {
			panic(fmt.Sprintf("modifies: unknown global %q", m))
		}
		gp := x.globalPtr(st, g)
		x.store(st, gp.P, x.freshValue(st, "mod_"+g.Name(), gp.P.Sub))
		return
	}
	if strings.HasPrefix(m, "mem(") && strings.HasSuffix(m, ")") {
		v, err := env.evalString(m[4 : len(m)-1])
		if err != nil {
			panic(fmt.Sprintf("modifies %s: %v", m, err))
		}
		sl, ok := v.T.Underlying().(*types.Slice)
		if !ok {
			panic(fmt.Sprintf("modifies %s: not a slice", m))
		}
		for _, lf := range flatten(sl.Elem()) {
			cur := x.heapCurE(st, "M", sl.Elem(), lf)
			x.heapSet(st, "M", sl.Elem(), lf, mkStore(cur, v.sliceArr(), x.fresh(st, "mod_mem", arrSort(lf.Sort))))
		}
		return
	}
	if strings.HasPrefix(m, "map(") && strings.HasSuffix(m, ")") {
		v, err := env.evalString(m[4 : len(m)-1])
		if err != nil {
			panic(fmt.Sprintf("modifies %s: %v", m, err))
		}
		mt, ok := v.T.Underlying().(*types.Map)
		if !ok {
			panic(fmt.Sprintf("modifies %s: not a map", m))
		}
		ks := x.mapKeySort(mt)
		d := x.mapDom(st, mt)
		x.mapSet(st, "MapD:"+typeKey(mt), mkStore(d, v.one(), x.fresh(st, "mod_mapdom", arrSortK(ks, sBool))))
		for _, lf := range flatten(mt.Elem()) {
			cur := x.mapVal(st, mt, lf)
			x.mapSet(st, "MapV:"+typeKey(mt)+":"+lf.Path, mkStore(cur, v.one(), x.fresh(st, "mod_mapval", arrSortK(ks, lf.Sort))))
		}
		return
	}
	if strings.HasPrefix(m, "sink ") {
		// the object behind an io.Writer-like interface value: the pointee when the value is a known
		// boxed pointer, otherwise any bytes.Buffer anywhere
		p, class := x.resolveSink(env, strings.TrimSpace(m[5:]))
		switch class {
		case sinkStateless:
			return
		case sinkKnown:
			x.store(st, p, x.freshValue(st, "mod_sink", p.Sub))
			return
		case sinkOlder:
			// an io.Writer handed in by the caller cannot reach objects this activation allocated
			x.havocAny(st, "bytes.Buffer", env.pkg, true)
			x.havocAny(st, "bytes.Reader", env.pkg, true)
			return
		}
		x.havocAny(st, "bytes.Reader", env.pkg, false)
		m = "any bytes.Buffer"
	}
	if strings.HasPrefix(m, "any ") {
		x.havocAny(st, m[4:], env.pkg, false)
		return
	}
	if strings.HasPrefix(m, "ghost ") {
		g := strings.TrimSpace(m[6:])
		if old, ok := st.ghost[g]; ok {
			st.ghost[g] = x.freshValue(st, "mod_ghost_"+g, old.T)
		}
		return
	}
	if strings.HasPrefix(m, "*") {
		// *v where v is an interface value holding a slice: the slice's elements
		if v, err := env.evalString(strings.TrimSpace(m[1:])); err == nil && v.T != nil && isInterface(v.T) && len(v.L) == 1 {
			if bv, ok := env.st.boxed[v.L[0].S]; ok && isSlice(bv.T) {
				sl := bv.T.Underlying().(*types.Slice)
				for _, lf := range flatten(sl.Elem()) {
					cur := x.heapCurE(st, "M", sl.Elem(), lf)
					x.heapSet(st, "M", sl.Elem(), lf, mkStore(cur, bv.sliceArr(), x.fresh(st, "mod_mem", arrSort(lf.Sort))))
				}
				return
			}
		}
	}
	p, err := env.evalAddr(m)
	if err != nil {
		panic(fmt.Sprintf("modifies %s: %v", m, err))
	}
	x.store(st, p, x.freshValue(st, "mod_"+sanitize(m), p.Sub))
}

func (x *Exec) havocLvalue(st *State, m string, env *Env) { x.havocLvalueIn(st, m, env) }

func (x *Exec) tryHavocLvalue(st *State, m string, env *Env) (ok bool) {
	defer func() {
		if r := recover(); r != nil {
			if s, isStr := r.(string); isStr && strings.Contains(s, "does not hold a known pointer") {
				ok = false
				return
			}
			panic(r)
		}
	}()
	x.havocLvalueIn(st, m, env)
	return true
}

// ---------------------------------------------------------------------
// builtins

func (x *Exec) doBuiltin(st *State, ins ssa.Instruction, b *ssa.Builtin, c *ssa.CallCommon, args []Value) Value {
	rt := resultType(c)
	switch b.Name() {
	case "len":
		a := args[0]
		switch {
		case isSlice(a.T):
			return scalar(rt, a.sliceLen())
		case isString(a.T):
			return scalar(rt, app("slen", sInt, a.one()))
		case isMap(a.T):
			n := x.mapLen(st, a.T.Underlying().(*types.Map), a.one())
			st.assume(mkCmp(">=", n, tZero))
			st.assume(mkImplies(mkEq(a.one(), tZero), mkEq(n, tZero)))
			return scalar(rt, n)
		default:
			if at, ok := a.T.Underlying().(*types.Array); ok {
				return scalar(rt, mkInt(at.Len()))
			}
			if pt, ok := a.T.Underlying().(*types.Pointer); ok {
				if at, ok := pt.Elem().Underlying().(*types.Array); ok {
					return scalar(rt, mkInt(at.Len()))
				}
			}
			n := x.fresh(st, "chanlen", sInt)
			st.assume(mkCmp(">=", n, tZero))
			return scalar(rt, n)
		}
	case "cap":
		a := args[0]
		if isSlice(a.T) {
			return scalar(rt, a.sliceCap())
		}
		if at, ok := a.T.Underlying().(*types.Array); ok {
			return scalar(rt, mkInt(at.Len()))
		}
		n := x.fresh(st, "cap", sInt)
		st.assume(mkCmp(">=", n, tZero))
		return scalar(rt, n)
	case "append":
		return x.doAppend(st, ins, c, args)
	case "copy":
		return x.doCopy(st, ins, c, args)
	case "delete":
		m := args[0]
		mt := m.T.Underlying().(*types.Map)
		d := x.mapDom(st, mt)
		wasIn := mkSelect(mkSelect(d, m.one()), args[1].one())
		lenBefore := x.mapLen(st, mt, m.one())
		x.mapSet(st, "MapD:"+typeKey(mt), mkStore(d, m.one(), mkStore(mkSelect(d, m.one()), args[1].one(), tFalse)))
		st.assume(mkEq(x.mapLen(st, mt, m.one()), mkIte(wasIn, mkArith("-", lenBefore, tOne), lenBefore)))
		return Value{T: rt}
	case "panic":
		if x.nopanic && !x.ctr.AllowExplicitPanic {
			x.oblige(st, "panic", fmt.Sprint(x.ordinals[ins]), tFalse, ins.Pos(), "explicit panic reachable")
		}
		st.dead = true
		return Value{T: rt}
	case "print", "println":
		return Value{T: rt}
	case "recover":
		return scalar(rt, tZero)
	case "ssa:wrapnilchk":
		x.safety(st, "nil", ins, mkNot(mkEq(args[0].L[0], tZero)), "nil receiver in method value")
		return args[0]
	case "ssa:deferstack":
		return scalar(rt, tZero)
	case "min", "max":
		r := args[0].one()
		for _, a := range args[1:] {
			if b.Name() == "min" {
				r = mkIte(mkCmp("<", a.one(), r), a.one(), r)
			} else {
				r = mkIte(mkCmp(">", a.one(), r), a.one(), r)
			}
		}
		return scalar(rt, r)
	case "close":
		return Value{T: rt}
	}
	panic(unsupported{fmt.Sprintf("UNSUPPORTED builtin %s in %s", b.Name(), x.funcName())})
}

// defineArr introduces a fresh (Array Int sort) constant with a quantified definition.
func (x *Exec) defineArr(st *State, hint, sort string, body func(i Term) Term) Term {
	a := x.fresh(st, hint, arrSort(sort))
	i := Term{"i!q", sInt}
	st.assume(Term{fmt.Sprintf("(forall ((i!q Int)) (! (= (select %s i!q) %s) :pattern ((select %s i!q))))", a.S, body(i).S, a.S), sBool})
	return a
}

func (x *Exec) doAppend(st *State, ins ssa.Instruction, c *ssa.CallCommon, args []Value) Value {
	s := args[0]
	if x.views[s.sliceArr().S] != nil && s.sliceLen().S != s.sliceCap().S {
		// appending to a full view (cap == len) reallocates; anything else could write in place
		panic(unsupported{"UNSUPPORTED append to a partial slice of an array embedded in another object in " + x.funcName()})
	}
	sl := s.T.Underlying().(*types.Slice)
	var tail Value
	if isString(args[1].T) {
		// append([]byte, string...)
		str := args[1].one()
		n := app("slen", sInt, str)
		r := x.allocRef(st, "strtail")
		lf := flatten(sl.Elem())[0]
		cur := x.heapCurE(st, "M", sl.Elem(), lf)
		na := x.defineArr(st, "strtail", sInt, func(i Term) Term { return app("sbyte", sInt, str, i) })
		x.initWrite = true
		x.heapSet(st, "M", sl.Elem(), lf, mkStore(cur, r, na))
		x.initWrite = false
		tail = mkSliceVal(s.T, r, tZero, n, n)
	} else {
		tail = args[1]
	}
	n := tail.sliceLen()
	newLen := mkArith("+", s.sliceLen(), n)
	inPlace := mkCmp("<=", newLen, s.sliceCap())
	rarr := x.fresh(st, "app_arr", sInt)
	roff := x.fresh(st, "app_off", sInt)
	rcap := x.fresh(st, "app_cap", sInt)
	fr := x.fresh(st, "app_new", sInt)
	st.assume(mkCmp(">", fr, st.top))
	st.top = fr
	st.allocs = append(st.allocs, fr)
	// appending nothing to a nil slice yields nil
	nothing := mkAnd(mkEq(s.sliceArr(), tZero), mkEq(n, tZero))
	st.assume(mkIte(mkOr(inPlace, nothing),
		mkAnd(mkEq(rarr, s.sliceArr()), mkEq(roff, s.sliceOff()), mkEq(rcap, s.sliceCap())),
		mkAnd(mkEq(rarr, fr), mkEq(roff, tZero), mkCmp(">=", rcap, newLen), mkCmp("<=", rcap, Term{"9223372036854775807", sInt}))))
	if x.framed() {
		okw := x.allowedWrite(st, "M", typeKey(sl.Elem()), 0, len(flatten(sl.Elem())), s.sliceArr())
		x.oblige(st, "frame", fmt.Sprintf("append@%d", x.ordinals[ins]), mkImplies(mkAnd(inPlace, mkNot(mkEq(n, tZero))), okw), ins.Pos(), "in-place append writes within the modifies clause")
	}
	for _, lf := range flatten(sl.Elem()) {
		cur := x.heapCurE(st, "M", sl.Elem(), lf)
		srcOld := mkSelect(cur, s.sliceArr())
		srcTail := mkSelect(cur, tail.sliceArr())
		dstOld := mkSelect(cur, rarr)
		na := x.defineArr(st, "app_mem", lf.Sort, func(i Term) Term {
			rel := mkArith("-", i, roff)
			inOld := mkAnd(mkCmp("<=", tZero, rel), mkCmp("<", rel, s.sliceLen()))
			inNew := mkAnd(mkCmp("<=", s.sliceLen(), rel), mkCmp("<", rel, newLen))
			return mkIte(inOld, mkSelect(srcOld, mkArith("+", s.sliceOff(), rel)),
				mkIte(inNew, mkSelect(srcTail, mkArith("+", tail.sliceOff(), mkArith("-", rel, s.sliceLen()))),
					mkIte(inPlace, mkSelect(dstOld, i), zeroTerm(lf.Sort))))
		})
		x.heapSet(st, "M", sl.Elem(), lf, mkStore(cur, rarr, na))
	}
	return mkSliceVal(s.T, rarr, roff, newLen, rcap)
}

func (x *Exec) doCopy(st *State, ins ssa.Instruction, c *ssa.CallCommon, args []Value) Value {
	dst, src := args[0], args[1]
	if isSlice(dst.T) && x.views[dst.sliceArr().S] != nil {
		// copy into a slice of an array that lives inside another object: copy into the view, then write the
		// view's contents back to the field it was taken from
		origin := x.views[dst.sliceArr().S]
		view := dst.sliceArr().S
		delete(x.views, view)
		res := x.doCopy(st, ins, c, args)
		x.views[view] = origin
		at := origin.Sub.Underlying().(*types.Array)
		var leaves []Term
		for _, lf := range flatten(at.Elem()) {
			leaves = append(leaves, mkSelect(x.heapCurE(st, "M", at.Elem(), lf), dst.sliceArr()))
		}
		x.store(st, origin, Value{T: origin.Sub, L: leaves})
		return res
	}
	sl := dst.T.Underlying().(*types.Slice)
	rt := resultType(c)
	var srcLen Term
	if isString(src.T) {
		srcLen = app("slen", sInt, src.one())
	} else {
		srcLen = src.sliceLen()
	}
	n := mkIte(mkCmp("<", dst.sliceLen(), srcLen), dst.sliceLen(), srcLen)
	nn := x.fresh(st, "copy_n", sInt)
	st.assume(mkEq(nn, n))
	if x.framed() {
		okw := x.allowedWrite(st, "M", typeKey(sl.Elem()), 0, len(flatten(sl.Elem())), dst.sliceArr())
		x.oblige(st, "frame", fmt.Sprintf("copy@%d", x.ordinals[ins]), mkImplies(mkCmp(">", nn, tZero), okw), ins.Pos(), "copy writes within the modifies clause")
	}
	for _, lf := range flatten(sl.Elem()) {
		cur := x.heapCurE(st, "M", sl.Elem(), lf)
		dstOld := mkSelect(cur, dst.sliceArr())
		na := x.defineArr(st, "copy_mem", lf.Sort, func(i Term) Term {
			rel := mkArith("-", i, dst.sliceOff())
			in := mkAnd(mkCmp("<=", tZero, rel), mkCmp("<", rel, nn))
			var from Term
			if isString(src.T) {
				from = app("sbyte", sInt, src.one(), rel)
			} else {
				from = mkSelect(mkSelect(cur, src.sliceArr()), mkArith("+", src.sliceOff(), rel))
			}
			return mkIte(in, from, mkSelect(dstOld, i))
		})
		x.heapSet(st, "M", sl.Elem(), lf, mkStore(cur, dst.sliceArr(), na))
	}
	return scalar(rt, nn)
}

// ---------------------------------------------------------------------

func sortedKeys[M ~map[string]V, V any](m M) []string {
	out := make([]string, 0, len(m))
	for k := range m {
		out = append(out, k)
	}
	sort.Strings(out)
	return out
}

// sink classes
const (
	sinkKnown     = iota // the object written to is known (Ptr)
	sinkStateless        // *os.File and the like: nothing the verifier tracks
	sinkOlder            // unknown object that existed at function entry (an io.Writer parameter)
	sinkUnknown          // anything
)

// resolveSink works out what a sink expression writes to. The expression is an io.Writer-like interface
// value or a pointer to a wrapping writer (recorded by a `wraps` clause).
func (x *Exec) resolveSink(env *Env, expr string) (p *Ptr, class int) {
	class = sinkUnknown
	defer func() {
		if r := recover(); r != nil {
			p, class = nil, sinkUnknown
		}
	}()
	v, err := env.evalString(expr)
	if err != nil || v.T == nil || len(v.L) == 0 {
		return nil, sinkUnknown
	}
	return x.resolveSinkValue(env.st, v, 0)
}

func (x *Exec) resolveSinkValue(st *State, v Value, depth int) (*Ptr, int) {
	if depth > 4 || len(v.L) == 0 {
		return nil, sinkUnknown
	}
	if isPointer(v.T) {
		if inner, ok := st.sinkOf[v.L[0].S]; ok {
			return x.resolveSinkValue(st, inner, depth+1)
		}
		if statelessSink(v.T) {
			return nil, sinkStateless
		}
		// a foreign writer type (bufio.Writer, flate.Writer, ...) without a recorded inner writer passes
		// the bytes on to something unknown
		if n, ok := v.T.Underlying().(*types.Pointer).Elem().(*types.Named); ok && n.Obj().Pkg() != nil {
			pp := n.Obj().Pkg().Path()
			// self-contained stream objects: their own fields are all that reading or writing changes
			// (an io.SectionReader reads through ReadAt, which leaves the underlying reader's position alone)
			selfContained := (pp == "bytes" && (n.Obj().Name() == "Buffer" || n.Obj().Name() == "Reader")) || (pp == "io" && n.Obj().Name() == "SectionReader")
			if !selfContained && !strings.HasPrefix(pp, modulePath) {
				return nil, sinkUnknown
			}
		}
		return x.deref(v), sinkKnown
	}
	if !isInterface(v.T) || len(v.L) != 1 {
		return nil, sinkUnknown
	}
	if inner, ok := st.sinkOf[v.L[0].S]; ok {
		// an interface value returned by a wrapping constructor (io.LimitReader, io.TeeReader, ...)
		return x.resolveSinkValue(st, inner, depth+1)
	}
	if bv, ok := st.boxed[v.L[0].S]; ok {
		if !isPointer(bv.T) {
			return nil, sinkUnknown
		}
		return x.resolveSinkValue(st, bv, depth+1)
	}
	if x.paramTerms[v.L[0].S] {
		return nil, sinkOlder
	}
	return nil, sinkUnknown
}

// sinkPointee returns the object a sink expression writes to when that is known.
func (x *Exec) sinkPointee(env *Env, expr string) *Ptr {
	p, class := x.resolveSink(env, expr)
	switch class {
	case sinkKnown:
		return p
	case sinkStateless:
		return &Ptr{Kind: pLocal, Cell: -1}
	}
	return nil
}

// statelessSink: *os.File values carry no state that specifications can read (the file system is outside
// the heap model), so writing to one changes nothing the verifier tracks.
func statelessSink(t types.Type) bool {
	pt, ok := t.Underlying().(*types.Pointer)
	if !ok {
		return false
	}
	n, ok := pt.Elem().(*types.Named)
	return ok && n.Obj().Pkg() != nil && n.Obj().Pkg().Path() == "os" && n.Obj().Name() == "File"
}

// havocAny forgets the field of every object of a type, wherever such objects live: the whole heap arrays
// are replaced. Objects private to this activation keep their values; with olderOnly, so does every object
// allocated since function entry.
func (x *Exec) havocAny(st *State, what string, pkg *ssa.Package, olderOnly bool) {
	priv := sortedKeys(st.private)
	for _, h := range x.anyRegions(what, pkg) {
		leaves := flatten(h.base)
		for _, kind := range []string{"H", "M"} {
			for k := h.lo; k < h.hi; k++ {
				name := heapName(kind, h.base, leaves[k].Path)
				if st.virgin[name] {
					// already a fresh version that nobody has looked at
					st.writeLog = append(st.writeLog, name)
					continue
				}
				if _, touched := st.heap[name]; !touched {
					// nothing is known about this array on this path (no object of the type was allocated or
					// read): a fresh version is all that is needed, there is nothing to preserve
					x.heapInfo[name] = heapMeta{kind, h.base, leaves[k]}
					x.heapHavoc(st, name)
					if st.virgin == nil {
						st.virgin = map[string]bool{}
					}
					st.virgin[name] = true
					st.writeLog = append(st.writeLog, name)
					continue
				}
				old := x.heapCurE(st, kind, h.base, leaves[k])
				x.heapHavoc(st, name)
				st.writeLog = append(st.writeLog, name)
				nw := st.heap[name]
				if olderOnly {
					// everything allocated during this activation (own allocations and fresh results of callees)
					// is out of the sink's reach; pointwise, to keep the queries quantifier-free
					seen := map[string]bool{}
					for _, a := range st.allocs {
						if !seen[a.S] {
							seen[a.S] = true
							st.assume(mkEq(mkSelect(nw, a), mkSelect(old, a)))
						}
					}
				} else if kind == "H" {
					for _, r := range priv {
						rt := Term{r, sInt}
						st.assume(mkEq(mkSelect(nw, rt), mkSelect(old, rt)))
					}
				}
			}
		}
	}
}

// staticClosure resolves a call through a local variable that is assigned a function literal exactly once
// (slot := func(..) {..}; slot(i)) to that literal.
func (x *Exec) staticClosure(c *ssa.CallCommon) *ssa.MakeClosure {
	if c.IsInvoke() {
		return nil
	}
	if mc, ok := c.Value.(*ssa.MakeClosure); ok {
		return mc
	}
	u, ok := c.Value.(*ssa.UnOp)
	if !ok {
		return nil
	}
	a, ok := u.X.(*ssa.Alloc)
	if !ok {
		return nil
	}
	if x.closureOf == nil {
		x.closureOf = map[*ssa.Alloc]*ssa.MakeClosure{}
		stores := map[*ssa.Alloc]int{}
		for _, b := range x.fn.Blocks {
			for _, ins := range b.Instrs {
				if st, ok := ins.(*ssa.Store); ok {
					if al, ok := st.Addr.(*ssa.Alloc); ok {
						stores[al]++
						if mc, ok := st.Val.(*ssa.MakeClosure); ok {
							x.closureOf[al] = mc
						} else {
							x.closureOf[al] = nil
						}
					}
				}
			}
		}
		for al, n := range stores {
			if n != 1 {
				delete(x.closureOf, al)
			}
		}
	}
	return x.closureOf[a]
}
