package main

import (
	"context"
	"encoding/json"
	"fmt"
	"os"
	"os/exec"
	"path/filepath"
	"regexp"
	"strings"
	"time"
)

// A replay driver is an in-package Go test kept in /verif/drivers. It is injected into the
// real package with `go test -overlay` (nothing is written into /repo), receives the solver's
// model through RELICVC_MODEL, drives the REAL function and fails iff the violated obligation
// is observed at run time.
type driverEntry struct {
	Obligation string `json:"obligation"` // exact name or prefix ending in '*'
	PkgDir     string `json:"pkgdir"`     // relative to the repository root
	File       string `json:"file"`       // file under /verif/drivers
	Test       string `json:"test"`       // test function to run
	Kind       string `json:"kind"`       // "model" (inputs from the counterexample) or "scenario"
}

func loadDrivers(verif string) []driverEntry {
	var ds []driverEntry
	b, err := os.ReadFile(filepath.Join(verif, "drivers", "drivers.json"))
	if err == nil {
		_ = json.Unmarshal(b, &ds)
	}
	return ds
}

var reModelDef = regexp.MustCompile(`\(define-fun\s+(\|[^|]*\||[^\s()]+)\s+\(\)\s+(Int|Bool|Real)\s+(\(-\s+[0-9.]+\)|[^\s()]+)\s*\)`)

// parseModel extracts scalar constants from a z3/cvc5 model.
func parseModel(model string) map[string]string {
	out := map[string]string{}
	for _, m := range reModelDef.FindAllStringSubmatch(model, -1) {
		name := strings.Trim(m[1], "|")
		val := strings.TrimSpace(m[3])
		if strings.HasPrefix(val, "(-") {
			val = "-" + strings.TrimSpace(strings.TrimSuffix(strings.TrimPrefix(val, "(-"), ")"))
		}
		out[name] = val
	}
	return out
}

func replayObligation(ck *Checker, prop string, o *Obligation) (bool, any) {
	var d *driverEntry
	ds := loadDrivers(ck.verif)
	for i := range ds {
		e := &ds[i]
		if e.Obligation == o.Name || (strings.HasSuffix(e.Obligation, "*") && strings.HasPrefix(o.Name, strings.TrimSuffix(e.Obligation, "*"))) {
			d = e
			break
		}
	}
	if d == nil {
		return false, map[string]any{"driver": nil, "reason": "no replay driver registered for this obligation; the solver output above is the evidence"}
	}
	tmp, err := os.MkdirTemp("", "relicvc-replay-")
	if err != nil {
		return false, err.Error()
	}
	defer os.RemoveAll(tmp)
	target := filepath.Join(ck.repo, d.PkgDir, "zz_replay_verif_test.go")
	ov := map[string]any{"Replace": map[string]string{target: filepath.Join(ck.verif, "drivers", d.File)}}
	ovb, _ := json.Marshal(ov)
	ovPath := filepath.Join(tmp, "overlay.json")
	os.WriteFile(ovPath, ovb, 0o644)
	model := parseModel(o.Model)
	mb, _ := json.Marshal(model)
	ctx, cancel := context.WithTimeout(context.Background(), 120*time.Second)
	defer cancel()
	args := []string{"test", "-overlay", ovPath, "-vet=off", "-count=1", "-timeout", "60s", "-run", "^" + d.Test + "$", "./" + d.PkgDir}
	cmd := exec.CommandContext(ctx, "go", args...)
	cmd.Dir = ck.repo
	cmd.Env = append(os.Environ(), "GOFLAGS=-mod=mod", "GOPROXY=off", "GOSUMDB=off", "GOTOOLCHAIN=local",
		"RELICVC_MODEL="+string(mb), "RELICVC_OBLIGATION="+o.Name, "GOCACHE="+filepath.Join(envOr("HOME", "/root"), ".cache", "go-build"))
	out, err := cmd.CombinedOutput()
	failed := err != nil && strings.Contains(string(out), "--- FAIL")
	verdict := map[string]any{
		"driver":  d.File,
		"test":    d.Test,
		"kind":    d.Kind,
		"command": "go " + strings.Join(args, " ") + "   (cwd /repo, overlay injects " + d.File + ")",
		"output":  truncate(string(out), 6000),
		"model":   model,
	}
	if failed {
		verdict["result"] = "violation reproduced on the real code"
	} else if err != nil {
		verdict["result"] = fmt.Sprintf("driver did not run to a verdict: %v", err)
	} else {
		verdict["result"] = "driver passed: the counterexample did not reproduce (abstraction in a callee contract, or an input the driver cannot build)"
	}
	return failed, verdict
}
