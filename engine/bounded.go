package main

import (
	"context"
	"encoding/json"
	"fmt"
	"os"
	"os/exec"
	"path/filepath"
	"regexp"
	"strconv"
	"strings"
	"time"
)

// A bounded stand-in is an exhaustive check of the real code up to a stated bound, used where a
// function is outside the verifier's reach. It is labelled bounded and never counted as proved.
type boundedEntry struct {
	Property      string `json:"property"`
	Name          string `json:"name"`
	PkgDir        string `json:"pkgdir"`
	File          string `json:"file"`
	Test          string `json:"test"`
	BoundQuick    int    `json:"bound_quick"`
	BoundThorough int    `json:"bound_thorough"`
	What          string `json:"what"`
}

type boundedResult struct {
	Name   string  `json:"name"`
	Bound  int     `json:"bound"`
	Cases  int     `json:"cases"`
	Passed bool    `json:"passed"`
	What   string  `json:"what"`
	Time   float64 `json:"wall_s"`
	Output string  `json:"-"`
	Cmd    string  `json:"command"`
}

var reCases = regexp.MustCompile(`BOUNDED-CASES (\d+)`)

func runBounded(ck *Checker, prop, tier string) []boundedResult {
	var entries []boundedEntry
	b, err := os.ReadFile(filepath.Join(ck.verif, "drivers", "bounded.json"))
	if err != nil {
		return nil
	}
	_ = json.Unmarshal(b, &entries)
	var out []boundedResult
	for _, e := range entries {
		if e.Property != prop {
			continue
		}
		bound := e.BoundQuick
		if tier == "thorough" {
			bound = e.BoundThorough
		}
		tmp, err := os.MkdirTemp("", "relicvc-bounded-")
		if err != nil {
			continue
		}
		target := filepath.Join(ck.repo, e.PkgDir, "zz_bounded_verif_test.go")
		ov, _ := json.Marshal(map[string]any{"Replace": map[string]string{target: filepath.Join(ck.verif, "drivers", e.File)}})
		ovPath := filepath.Join(tmp, "overlay.json")
		os.WriteFile(ovPath, ov, 0o644)
		ctx, cancel := context.WithTimeout(context.Background(), 20*time.Minute)
		args := []string{"test", "-overlay", ovPath, "-vet=off", "-count=1", "-v", "-timeout", "15m", "-run", "^" + e.Test + "$", "./" + e.PkgDir}
		cmd := exec.CommandContext(ctx, "go", args...)
		cmd.Dir = ck.repo
		cmd.Env = append(os.Environ(), "GOFLAGS=-mod=mod", "GOPROXY=off", "GOSUMDB=off", "GOTOOLCHAIN=local", "RELICVC_BOUND="+strconv.Itoa(bound),
			"VERIF_SEED="+envOr("VERIF_SEED", "0"))
		t0 := time.Now()
		o, err := cmd.CombinedOutput()
		cancel()
		os.RemoveAll(tmp)
		r := boundedResult{Name: e.Name, Bound: bound, What: e.What, Passed: err == nil, Time: time.Since(t0).Seconds(), Output: string(o),
			Cmd: "RELICVC_BOUND=" + strconv.Itoa(bound) + " go " + strings.Join(args, " ")}
		if m := reCases.FindStringSubmatch(string(o)); m != nil {
			r.Cases, _ = strconv.Atoi(m[1])
		}
		out = append(out, r)
		fmt.Printf("BOUNDED %s [%s] bound=%d cases=%d: %s (%.1fs)\n", prop, e.Name, bound, r.Cases, map[bool]string{true: "passed", false: "FAILED"}[r.Passed], r.Time)
	}
	return out
}
