package main

import (
	"go/types"
	"encoding/json"
	"flag"
	"fmt"
	"os"
	"path/filepath"
	"runtime"
	"sort"
	"strconv"
	"strings"
	"time"

	"golang.org/x/tools/go/ssa"
)

type funcResult struct {
	Name        string
	Ctr         *FuncContract
	Exec        *Exec
	Err         error
	Obligations []*Obligation
}

type KnownFinding struct {
	Property   string `json:"property"`
	Obligation string `json:"obligation"`
	Status     string `json:"status"` // open | fixed
	What       string `json:"what"`
	Input      string `json:"input,omitempty"`
	Commit     string `json:"commit,omitempty"`
}

type KnownFile struct {
	Findings []KnownFinding `json:"findings"`
}

func loadKnown(verif string) KnownFile {
	var kf KnownFile
	b, err := os.ReadFile(filepath.Join(verif, "known_findings.json"))
	if err == nil {
		_ = json.Unmarshal(b, &kf)
	}
	return kf
}

func hasProp(ps []string, p string) bool {
	for _, q := range ps {
		if q == p {
			return true
		}
	}
	return false
}

func newExec(ck *Checker, fn *ssa.Function, ctr *FuncContract) *Exec {
	x := &Exec{ck: ck, fn: fn, ctr: ctr, pre: newPreamble(), heapInfo: map[string]heapMeta{}, assumptions: map[string]bool{}, mapInfo: map[string]string{}, falsePost: true, pendingMapHavoc: map[string]bool{}}
	if ctr != nil {
		x.nopanic = ctr.NoPanic
	}
	x.allocsByName = map[string][]*ssa.Alloc{}
	if fn != nil {
		for _, b := range fn.Blocks {
			for _, ins := range b.Instrs {
				if a, ok := ins.(*ssa.Alloc); ok && a.Comment != "" {
					x.allocsByName[a.Comment] = append(x.allocsByName[a.Comment], a)
				}
			}
		}
	}
	return x
}

func main() {
	if len(os.Args) < 2 {
		fmt.Fprintln(os.Stderr, "usage: relicvc check <Cxx> [--tier quick|thorough] | vc <pkgpath> <func> | list")
		os.Exit(2)
	}
	switch os.Args[1] {
	case "check":
		os.Exit(cmdCheck(os.Args[2:]))
	case "list":
		os.Exit(cmdList(os.Args[2:]))
	case "names":
		os.Exit(cmdNames(os.Args[2:]))
	default:
		fmt.Fprintln(os.Stderr, "unknown sub-command", os.Args[1])
		os.Exit(2)
	}
}

func cmdList(args []string) int {
	ck := newChecker(envOr("RELIC_REPO", "/repo"), envOr("RELIC_VERIF", "/verif"))
	if err := ck.loadSpecs(); err != nil {
		fmt.Fprintln(os.Stderr, err)
		return 2
	}
	props := map[string][]string{}
	for n, c := range ck.contracts {
		for _, p := range c.Properties {
			props[p] = append(props[p], n)
		}
	}
	for _, p := range sortedKeys(props) {
		sort.Strings(props[p])
		fmt.Printf("%s: %d functions\n", p, len(props[p]))
		for _, n := range props[p] {
			fmt.Println("   ", n)
		}
	}
	return 0
}

func envOr(k, d string) string {
	if v := os.Getenv(k); v != "" {
		return v
	}
	return d
}

func cmdCheck(args []string) int {
	fs := flag.NewFlagSet("check", flag.ExitOnError)
	tier := fs.String("tier", envOr("VERIF_TIER", "quick"), "quick or thorough")
	keep := fs.String("keep", "", "keep SMT queries in this directory")
	only := fs.String("only", "", "only functions whose name contains this text (debugging; no evidence written)")
	verbose := fs.Bool("v", false, "verbose")
	var prop string
	if len(args) > 0 && !strings.HasPrefix(args[0], "-") {
		prop = args[0]
		args = args[1:]
	}
	fs.Parse(args)
	if prop == "" && fs.NArg() > 0 {
		prop = fs.Arg(0)
	}
	if prop == "" {
		fmt.Fprintln(os.Stderr, "check: property id required")
		return 2
	}
	if *tier != "quick" && *tier != "thorough" {
		*tier = "quick"
	}
	seed, _ := strconv.Atoi(envOr("VERIF_SEED", "0"))
	t0 := time.Now()
	repo := envOr("RELIC_REPO", "/repo")
	verif := envOr("RELIC_VERIF", "/verif")
	ck := newChecker(repo, verif)
	if err := ck.loadSpecs(); err != nil {
		fmt.Fprintln(os.Stderr, "SPEC:", err)
		return 2
	}
	var ctrs []*FuncContract
	pkgSet := map[string]bool{}
	for _, c := range ck.contracts {
		if hasProp(c.Properties, prop) {
			ctrs = append(ctrs, c)
			pkgSet[c.PkgPath] = true
		}
	}
	var lemmas []*Lemma
	for _, l := range ck.lemmas {
		if hasProp(l.Properties, prop) {
			lemmas = append(lemmas, l)
			if l.PkgPath != "" {
				pkgSet[l.PkgPath] = true
			}
		}
	}
	sort.Slice(ctrs, func(i, j int) bool {
		return fullName(ctrs[i].PkgPath, ctrs[i].Name) < fullName(ctrs[j].PkgPath, ctrs[j].Name)
	})
	if len(ctrs) == 0 && len(lemmas) == 0 {
		fmt.Fprintf(os.Stderr, "UNBOUND: no contract in %s carries property %s\n", repo, prop)
		return 2
	}
	var patterns []string
	for p := range pkgSet {
		patterns = append(patterns, "./"+strings.TrimPrefix(strings.TrimPrefix(p, modulePath), "/"))
	}
	sort.Strings(patterns)
	if err := ck.load(patterns); err != nil {
		fmt.Fprintln(os.Stderr, err)
		return 2
	}
	tLoad := time.Since(t0).Seconds()

	dir := *keep
	if dir == "" {
		d, err := os.MkdirTemp("", "relicvc-")
		if err != nil {
			fmt.Fprintln(os.Stderr, err)
			return 2
		}
		dir = d
		defer os.RemoveAll(d)
	} else {
		os.MkdirAll(dir, 0o755)
	}

	var results []*funcResult
	var jobs []job
	engineErr := false
	for _, c := range ctrs {
		name := fullName(c.PkgPath, c.Name)
		if *only != "" && !strings.Contains(name, *only) {
			continue
		}
		fr := &funcResult{Name: name, Ctr: c}
		results = append(results, fr)
		if c.Trusted {
			continue
		}
		fn := ck.findFunction(c)
		if fn == nil || len(fn.Blocks) == 0 {
			fr.Err = fmt.Errorf("UNBOUND: function %s not found in the current tree (contract at %s:%d)", name, c.File, c.Line)
			engineErr = true
			continue
		}
		x := newExec(ck, fn, c)
		fr.Exec = x
		if err := x.run(); err != nil {
			fr.Err = err
			engineErr = true
			continue
		}
		fr.Obligations = x.obls
		for _, o := range x.obls {
			jobs = append(jobs, job{o, buildQuery(x.pre, o)})
		}
	}
	// lemmas
	for _, l := range lemmas {
		if *only != "" && !strings.Contains(l.Name, *only) {
			continue
		}
		fr := &funcResult{Name: "lemma " + l.Name}
		results = append(results, fr)
		x := newExec(ck, nil, nil)
		fr.Exec = x
		obls, err := x.runLemma(l)
		if err != nil {
			fr.Err = err
			engineErr = true
			continue
		}
		fr.Obligations = obls
		for _, o := range obls {
			jobs = append(jobs, job{o, buildQuery(x.pre, o)})
		}
	}
	tGen := time.Since(t0).Seconds() - tLoad
	timeout := 10
	if *tier == "thorough" {
		timeout = 60
	}
	if len(jobs) > 0 {
		for _, j := range jobs {
			if len(j.query) > 2048*1024 {
				fmt.Fprintf(os.Stderr, "CAP: query for %s is %d bytes\n", j.o.Name, len(j.query))
				engineErr = true
			}
		}
		solveAll(dir, jobs, timeout, *tier == "thorough", runtime.NumCPU())
	}
	if *verbose {
		diagnoseConjuncts(dir, results)
	}
	tSolve := time.Since(t0).Seconds() - tLoad - tGen

	rep := buildReport(ck, prop, *tier, seed, results, *verbose)
	if *only == "" {
		rep.Bounded = runBounded(ck, prop, *tier)
	}
	rep.Times = map[string]float64{"load_s": tLoad, "vcgen_s": tGen, "solve_s": tSolve}
	rep.Wall = time.Since(t0).Seconds()
	for _, fr := range results {
		if fr.Err != nil {
			fmt.Println(fr.Err)
		}
	}
	for _, n := range ck.notes {
		fmt.Println(n)
	}
	code := rep.finish(ck, verif, *only == "", engineErr)
	return code
}

// runLemma turns a lemma into a single validity obligation.
func (x *Exec) runLemma(l *Lemma) (obls []*Obligation, err error) {
	defer func() {
		if r := recover(); r != nil {
			err = fmt.Errorf("lemma %s: %v", l.Name, r)
		}
	}()
	st := x.entryOrEmpty()
	var pkg *ssa.Package
	if l.PkgPath != "" {
		pkg = x.ck.ssaPkgByPath(l.PkgPath)
	}
	vars := map[string]Value{}
	if strings.TrimSpace(l.Params) != "" {
		sf := &SpecFunc{Name: "lemma!" + l.Name, Params: l.Params, Ret: "bool", PkgPath: l.PkgPath, File: l.File, Line: l.Line}
		sig := x.ck.lemmaParams(sf, pkg)
		for _, p := range sig.params {
			leaves := flatten(p.t)
			v := Value{T: p.t, L: make([]Term, len(leaves))}
			for k, lf := range leaves {
				v.L[k] = x.fresh(st, "lem_"+p.name+lf.Path, lf.Sort)
			}
			vars[p.name] = v
		}
	}
	env := &Env{x: x, st: st, vars: vars, lemma: true, pkg: pkg}
	for _, c := range l.Requires {
		t, err := env.evalBool(c.Expr)
		if err != nil {
			return nil, fmt.Errorf("%s:%d: %v", c.File, c.Line, err)
		}
		st.assume(t)
	}
	name := "lemma " + l.Name
	obls = append(obls, &Obligation{Name: name + "#cover[requires]", Func: name, Kind: "cover", PC: st.pc, Goal: tFalse, Assume: true})
	for k, c := range l.Ensures {
		t, err := env.evalBool(c.Expr)
		if err != nil {
			return nil, fmt.Errorf("%s:%d: %v", c.File, c.Line, err)
		}
		label := c.Label
		if label == "" {
			label = fmt.Sprint(k)
		}
		obls = append(obls, &Obligation{Name: fmt.Sprintf("%s#lemma[%s]", name, label), Func: name, Kind: "lemma", PC: st.pc, Goal: t, Pos: fmt.Sprintf("%s:%d", strings.TrimPrefix(c.File, x.ck.repo+"/"), c.Line), Note: c.Expr})
	}
	return obls, nil
}

func (ck *Checker) lemmaParams(sf *SpecFunc, pkg *ssa.Package) *specSigT {
	sig := &specSigT{}
	ft, err := parseFuncType(sf.Params)
	if err != nil {
		panic(fmt.Sprintf("%s:%d: bad lemma parameters: %v", sf.File, sf.Line, err))
	}
	for _, fld := range ft.Params.List {
		t, err := ck.resolveTypeAST(fld.Type, pkg)
		if err != nil {
			panic(fmt.Sprintf("%s:%d: lemma %s: %v", sf.File, sf.Line, sf.Name, err))
		}
		for _, nm := range fld.Names {
			sig.params = append(sig.params, specParam{nm.Name, t})
		}
	}
	return sig
}

// splitAnd returns the arguments of a top-level (and ...) term.
func splitAnd(t string) []string {
	t = strings.TrimSpace(t)
	if !strings.HasPrefix(t, "(and ") {
		return nil
	}
	body := t[5 : len(t)-1]
	var out []string
	depth, start := 0, -1
	inBar := false
	for i := 0; i < len(body); i++ {
		c := body[i]
		if c == '|' {
			inBar = !inBar
		}
		if inBar {
			if start < 0 {
				start = i
			}
			continue
		}
		switch {
		case c == '(':
			if depth == 0 && start < 0 {
				start = i
			}
			depth++
		case c == ')':
			depth--
			if depth == 0 {
				out = append(out, body[start:i+1])
				start = -1
			}
		case c == ' ' || c == '\n':
			if depth == 0 && start >= 0 {
				out = append(out, body[start:i])
				start = -1
			}
		default:
			if start < 0 {
				start = i
			}
		}
	}
	if start >= 0 {
		out = append(out, body[start:])
	}
	return out
}

// diagnoseConjuncts (debugging aid, -v only): for each failed obligation whose goal is a conjunction,
// say which conjuncts fail on their own.
func diagnoseConjuncts(dir string, results []*funcResult) {
	for _, fr := range results {
		for _, o := range fr.Obligations {
			if o.Assume || o.Status == "unsat" {
				continue
			}
			parts := splitAnd(o.Goal.S)
			var flat []string
			for len(parts) > 0 {
				p := parts[0]
				parts = parts[1:]
				if sub := splitAnd(p); sub != nil {
					parts = append(sub, parts...)
					continue
				}
				// look through (=> a (and ...))
				flat = append(flat, p)
			}
			if len(flat) < 2 {
				continue
			}
			for _, c := range flat {
				o2 := &Obligation{Name: o.Name + "/conjunct", PC: o.PC, Goal: Term{c, sBool}}
				r := solve(dir, buildQuery(fr.Exec.pre, o2), 5, false, false)
				if r.Status != "unsat" {
					s := c
					if len(s) > 400 {
						s = s[:400] + "..."
					}
					fmt.Printf("  DIAG %s: conjunct %s: %s\n", o.Name, r.Status, s)
				}
			}
		}
	}
}

// cmdNames prints, for each package pattern, the functions with bodies in the form contract files use
// ("pkgpath<TAB>RelString<TAB>has-contract"); used by tools/sweep.py.
func cmdNames(args []string) int {
	ck := newChecker(envOr("RELIC_REPO", "/repo"), envOr("RELIC_VERIF", "/verif"))
	if err := ck.loadSpecs(); err != nil {
		fmt.Fprintln(os.Stderr, "SPEC:", err)
		return 2
	}
	if err := ck.load(args); err != nil {
		fmt.Fprintln(os.Stderr, err)
		return 2
	}
	for _, path := range sortedKeys(ck.pkgs) {
		sp := ck.ssaPkgByPath(path)
		if sp == nil {
			continue
		}
		seen := map[string]bool{}
		var emit func(f *ssa.Function)
		emit = func(f *ssa.Function) {
			if f == nil || len(f.Blocks) == 0 || f.Pkg != sp || f.Synthetic != "" || seen[f.String()] {
				return
			}
			seen[f.String()] = true
			if f.Name() == "init" || strings.HasPrefix(f.Name(), "init#") {
				return
			}
			rel := f.RelString(sp.Pkg)
			_, has := ck.contracts[fullName(path, rel)]
			fmt.Printf("%s\t%s\t%v\n", path, rel, has)
		}
		var names []string
		for n := range sp.Members {
			names = append(names, n)
		}
		sort.Strings(names)
		for _, n := range names {
			switch m := sp.Members[n].(type) {
			case *ssa.Function:
				emit(m)
			case *ssa.Type:
				for _, t := range []types.Type{m.Type(), types.NewPointer(m.Type())} {
					ms := ck.prog.MethodSets.MethodSet(t)
					for i := 0; i < ms.Len(); i++ {
						emit(ck.prog.MethodValue(ms.At(i)))
					}
				}
			}
		}
	}
	return 0
}
