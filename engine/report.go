package main

import (
	"encoding/json"
	"fmt"
	"go/ast"
	"go/parser"
	"golang.org/x/tools/go/ssa"
	"golang.org/x/tools/go/ssa/ssautil"
	"os"
	"path/filepath"
	"sort"
	"strings"
)

func parseFuncType(params string) (*ast.FuncType, error) {
	ex, err := parser.ParseExpr("func(" + params + ")")
	if err != nil {
		return nil, err
	}
	return ex.(*ast.FuncType), nil
}

type oblSummary struct {
	Name      string   `json:"name"`
	Kind      string   `json:"kind"`
	Instances int      `json:"instances"`
	Status    string   `json:"status"`
	Solvers   []string `json:"solvers"`
	Time      float64  `json:"solver_time_s"`
	Pos       string   `json:"pos,omitempty"`
	Expr      string   `json:"expr,omitempty"`
	failing   *Obligation
}

type Report struct {
	Prop      string
	Tier      string
	Seed      int
	Funcs     []string
	Summ      []*oblSummary
	Failing   []*oblSummary
	Vacuous   []string
	Assume    []string
	Externs   []string
	Havocs    []string
	Times     map[string]float64
	Wall      float64
	Known     []KnownFinding
	Verbose   bool
	Samples   []map[string]any
	NQueries  int
	DeadNotes []string
	Bounded   []boundedResult
}

func buildReport(ck *Checker, prop, tier string, seed int, results []*funcResult, verbose bool) *Report {
	rep := &Report{Prop: prop, Tier: tier, Seed: seed, Verbose: verbose}
	assume := map[string]bool{}
	for _, fr := range results {
		rep.Funcs = append(rep.Funcs, fr.Name)
		if fr.Ctr != nil && fr.Ctr.Trusted {
			assume["TRUSTED (body not verified): "+fr.Name] = true
		}
		if fr.Exec != nil {
			for a := range fr.Exec.assumptions {
				assume[a] = true
			}
		}
		byName := map[string]*oblSummary{}
		var order []string
		type edge struct{ a, b int }
		allEdges := map[edge]bool{}
		liveEdges := map[edge]bool{}
		retPaths, retFeasible := 0, 0
		for _, o := range fr.Obligations {
			rep.NQueries++
			if o.Kind == "cover" {
				if o.Status == "unsat" {
					rep.Vacuous = append(rep.Vacuous, o.Name+": precondition is unsatisfiable")
				}
				continue
			}
			if o.Kind == "pathcover" {
				live := o.Status != "unsat"
				if len(o.Trace) > 0 && o.Trace[len(o.Trace)-1] == -1 {
					retPaths++
					if live {
						retFeasible++
					}
				}
				for k := 0; k+1 < len(o.Trace); k++ {
					e := edge{o.Trace[k], o.Trace[k+1]}
					if e.b < 0 {
						continue
					}
					allEdges[e] = true
					if live {
						liveEdges[e] = true
					}
				}
				continue
			}
			s := byName[o.Name]
			if s == nil {
				s = &oblSummary{Name: o.Name, Kind: o.Kind, Status: "discharged", Pos: o.Pos, Expr: o.Note}
				byName[o.Name] = s
				order = append(order, o.Name)
			}
			s.Instances++
			s.Time += o.Time
			if o.Solver != "" {
				found := false
				for _, x := range s.Solvers {
					if x == o.Solver {
						found = true
					}
				}
				if !found {
					s.Solvers = append(s.Solvers, o.Solver)
				}
			}
			if o.Status != "unsat" {
				if s.failing == nil || (o.Status == "sat" && s.failing.Status != "sat") {
					s.failing = o
					s.Status = o.Status
					s.Pos = o.Pos
				}
			}
		}
		if fr.Ctr != nil && !fr.Ctr.Trusted && fr.Err == nil && retPaths > 0 && retFeasible == 0 && len(fr.Ctr.Ensures) > 0 {
			rep.Vacuous = append(rep.Vacuous, fr.Name+": no return path is feasible under the contract's assumptions")
		}
		var dead []string
		for e := range allEdges {
			if !liveEdges[e] {
				pos := ""
				if fr.Exec != nil && fr.Exec.fn != nil && e.a < len(fr.Exec.fn.Blocks) {
					ins := fr.Exec.fn.Blocks[e.a].Instrs
					for q := len(ins) - 1; q >= 0 && pos == ""; q-- {
						pos = fr.Exec.posOf(ins[q].Pos())
					}
				}
				dead = append(dead, fmt.Sprintf("block %d -> block %d (%s)", e.a, e.b, pos))
			}
		}
		sort.Strings(dead)
		allowed := 0
		if fr.Ctr != nil {
			allowed = fr.Ctr.DeadEdges
		}
		if len(dead) > allowed {
			rep.Vacuous = append(rep.Vacuous, fmt.Sprintf("%s: %d control-flow edge(s) are infeasible under the assumptions in force (contract allows %d): %s", fr.Name, len(dead), allowed, strings.Join(dead, "; ")))
		} else if len(dead) > 0 {
			rep.DeadNotes = append(rep.DeadNotes, fmt.Sprintf("%s: infeasible edges accepted by the contract's `deadedges %d` clause: %s", fr.Name, allowed, strings.Join(dead, "; ")))
		}
		for _, n := range order {
			s := byName[n]
			rep.Summ = append(rep.Summ, s)
			if s.failing != nil {
				rep.Failing = append(rep.Failing, s)
			}
		}
	}
	// preconditions are obligations only at call sites inside functions under contract; list the other call sites
	for _, a := range uncheckedCallers(ck, results) {
		assume[a] = true
	}
	for a := range assume {
		rep.Assume = append(rep.Assume, a)
	}
	sort.Strings(rep.Assume)
	for _, n := range sortedKeys(ck.externUsed) {
		c := ck.externUsed[n]
		desc := "extern " + c.Name
		switch {
		case c.Pure:
			desc += " [pure]"
		case c.Neutral:
			desc += " [no heap effect]"
		}
		for _, e := range c.Ensures {
			desc += "; ensures " + e.Expr
		}
		rep.Externs = append(rep.Externs, desc)
	}
	for _, f := range sortedKeys(ck.havocCalls) {
		for _, c := range sortedKeys(ck.havocCalls[f]) {
			rep.Havocs = append(rep.Havocs, shortCallee(f)+" -> "+c)
		}
	}
	return rep
}

func sanitizeFile(s string) string {
	r := strings.NewReplacer("/", "_", "(", "", ")", "", "*", "", "#", "-", "[", "-", "]", "", " ", "_", "@", "-", "$", "-", "|", "", "<", "", ">", "", ":", "_")
	s = r.Replace(s)
	s = strings.TrimPrefix(s, "github.com_sassoftware_relic_v8_")
	if len(s) > 150 {
		s = s[:150]
	}
	return s
}

type expectedFile map[string][]string

func (rep *Report) finish(ck *Checker, verif string, writeEvidence bool, engineErr bool) int {
	known := loadKnown(verif)
	code := 0
	// expected obligation names
	missing := []string{}
	expPath := filepath.Join(verif, "contracts", "expected.json")
	var exp expectedFile
	if b, err := os.ReadFile(expPath); err == nil {
		_ = json.Unmarshal(b, &exp)
	}
	have := map[string]bool{}
	for _, s := range rep.Summ {
		have[s.Name] = true
	}
	if os.Getenv("RELICVC_UPDATE_EXPECTED") != "" && writeEvidence && !engineErr {
		if exp == nil {
			exp = expectedFile{}
		}
		var names []string
		for n := range have {
			names = append(names, n)
		}
		sort.Strings(names)
		exp[rep.Prop] = names
		b, _ := json.MarshalIndent(exp, "", " ")
		os.MkdirAll(filepath.Dir(expPath), 0o755)
		os.WriteFile(expPath, append(b, '\n'), 0o644)
	} else if exp != nil && writeEvidence {
		for _, n := range exp[rep.Prop] {
			if !have[n] {
				missing = append(missing, n)
			}
		}
	}

	violations := 0
	knownHit := 0
	var knownLines []string
	outDir := envOr("RELIC_OUT", verif)
	replayDir := filepath.Join(outDir, "replays", rep.Prop)
	if writeEvidence {
		os.RemoveAll(replayDir)
	}
	for _, s := range rep.Failing {
		var kf *KnownFinding
		for i := range known.Findings {
			k := &known.Findings[i]
			if k.Property == rep.Prop && k.Obligation == s.Name && k.Status == "open" {
				kf = k
			}
		}
		if kf != nil {
			knownHit++
			knownLines = append(knownLines, fmt.Sprintf("KNOWN-FINDING: property=%s %s %s", rep.Prop, s.Name, kf.What))
			continue
		}
		violations++
		os.MkdirAll(replayDir, 0o755)
		rp := filepath.Join(replayDir, sanitizeFile(s.Name)+".json")
		o := s.failing
		replayed, verdict := tryReplay(ck, rep.Prop, o)
		rj := map[string]any{
			"property":      rep.Prop,
			"obligation":    s.Name,
			"kind":          s.Kind,
			"position":      o.Pos,
			"expression":    o.Note,
			"status":        o.Status,
			"solver":        o.Solver,
			"solver_output": truncate(o.Model, 20000),
			"path_blocks":   o.Trace,
			"goal":          truncate(o.Goal.S, 4000),
			"replay":        verdict,
			"baseline":      baselineRecord(verif, s.Name),
		}
		b, _ := json.MarshalIndent(rj, "", " ")
		os.WriteFile(rp, append(b, '\n'), 0o644)
		line := fmt.Sprintf("VIOLATION property=%s replay=%s", rep.Prop, rp)
		if !replayed {
			line += " no-failing-input-found"
		}
		fmt.Printf("FAILED obligation %s [%s by %s] at %s: %s\n", s.Name, o.Status, o.Solver, o.Pos, o.Note)
		fmt.Println(line)
	}
	for _, br := range rep.Bounded {
		if br.Passed {
			continue
		}
		name := "bounded:" + br.Name
		isKnown := false
		for i := range known.Findings {
			k := &known.Findings[i]
			if k.Property == rep.Prop && k.Obligation == name && k.Status == "open" {
				isKnown = true
				knownHit++
				knownLines = append(knownLines, fmt.Sprintf("KNOWN-FINDING: property=%s %s %s", rep.Prop, name, k.What))
			}
		}
		if isKnown {
			continue
		}
		violations++
		os.MkdirAll(replayDir, 0o755)
		rp := filepath.Join(replayDir, sanitizeFile(name)+".json")
		rj := map[string]any{"property": rep.Prop, "obligation": name, "kind": "bounded stand-in (exhaustive up to the stated bound, on the real code)",
			"bound": br.Bound, "cases": br.Cases, "command": br.Cmd, "output": truncate(br.Output, 8000), "replay": map[string]any{"result": "violation reproduced on the real code"}}
		b, _ := json.MarshalIndent(rj, "", " ")
		os.WriteFile(rp, append(b, '\n'), 0o644)
		fmt.Printf("FAILED bounded stand-in %s (bound %d): see %s\n", br.Name, br.Bound, rp)
		fmt.Printf("VIOLATION property=%s replay=%s\n", rep.Prop, rp)
	}
	for _, l := range knownLines {
		fmt.Println(l)
	}
	if violations > 0 {
		code = 1
	}
	if len(rep.Vacuous) > 0 {
		for _, v := range rep.Vacuous {
			fmt.Println("VACUOUS:", v)
		}
		if code == 0 {
			code = 2
		}
	}
	if len(missing) > 0 && code == 0 {
		for _, m := range missing {
			fmt.Println("MISSING obligation (present in contracts/expected.json, not generated from the current tree):", m)
		}
		code = 2
	}
	if engineErr && code == 0 {
		code = 2
	}
	discharged := 0
	for _, s := range rep.Summ {
		if s.failing == nil {
			discharged++
		}
	}
	total := len(rep.Summ) - knownHit
	fmt.Printf("%s [%s]: %d functions under contract, %d obligations (%d solver queries), %d discharged, %d known findings, %d violations; load %.1fs vcgen %.1fs solve %.1fs\n",
		rep.Prop, rep.Tier, len(rep.Funcs), len(rep.Summ), rep.NQueries, discharged, knownHit, violations, rep.Times["load_s"], rep.Times["vcgen_s"], rep.Times["solve_s"])
	if rep.Verbose {
		for _, s := range rep.Summ {
			fmt.Printf("  %-12s %-10s x%-3d %6.2fs %s\n", s.Status, strings.Join(s.Solvers, ","), s.Instances, s.Time, s.Name)
		}
	}
	if !writeEvidence {
		return code
	}
	// evidence
	var samples []any
	for i, s := range rep.Summ {
		if i%max(1, len(rep.Summ)/8) == 0 && len(samples) < 10 {
			samples = append(samples, map[string]any{"obligation": s.Name, "at": s.Pos, "expr": s.Expr, "status": s.Status, "instances": s.Instances, "solvers": s.Solvers})
		}
	}
	var all []any
	for _, s := range rep.Summ {
		all = append(all, s)
	}
	var kl []any
	for _, l := range knownLines {
		kl = append(kl, l)
	}
	trusted := []string{
		"Go type checker and go/ssa builder (x/tools v0.29.0), naive form",
		"relicvc verification-condition generator (this repository, /verif/engine)",
		"SMT solvers z3 5.1.0, z3 4.8.12, cvc5 1.0",
		"64-bit int/uint (linux/amd64); floats as reals; strings as opaque ids with length and bytes",
	}
	assumptions := append([]string{}, rep.Assume...)
	for _, e := range rep.Externs {
		assumptions = append(assumptions, "assumed contract: "+e)
	}
	for _, h := range rep.Havocs {
		assumptions = append(assumptions, "call without contract treated as havoc (heap and results unconstrained): "+h)
	}
	ev := map[string]any{
		"property_id": rep.Prop,
		"tier":        rep.Tier,
		"seed":        rep.Seed,
		"level":       "proof",
		"coverage": map[string]any{
			"obligations":              total,
			"discharged":               discharged,
			"checker_cmd":              "bin/relicvc check " + rep.Prop + " --tier " + rep.Tier,
			"trusted_base":             trusted,
			"functions_under_contract": rep.Funcs,
			"solver_queries":           rep.NQueries,
			"obligation_list":          all,
			"known_findings":           kl,
			"samples":                  samples,
			"vacuity":                  map[string]any{"problems": rep.Vacuous, "checks": "requires satisfiable per function; every finished path gets a feasibility query; at least one feasible return path per function; every control-flow edge explored must lie on a feasible path (else VACUOUS)", "accepted_dead_edges": rep.DeadNotes},
			"times_s":                  rep.Times,
			"bounded_standins":         rep.Bounded,
			"bounded_note":             "bounded stand-ins are exhaustive checks of the real code up to the stated bound; they are NOT counted in obligations/discharged",
		},
		"assumptions": assumptions,
		"wall_s":      rep.Wall,
		"violations":  violations,
	}
	os.MkdirAll(filepath.Join(outDir, "evidence"), 0o755)
	b, _ := json.MarshalIndent(ev, "", " ")
	os.WriteFile(filepath.Join(outDir, "evidence", rep.Prop+".json"), append(b, '\n'), 0o644)
	return code
}

func truncate(s string, n int) string {
	if len(s) > n {
		return s[:n] + "…"
	}
	return s
}

func baselineRecord(verif, name string) any {
	b, err := os.ReadFile(filepath.Join(verif, "contracts", "baseline_status.json"))
	if err != nil {
		return nil
	}
	var m map[string]any
	if json.Unmarshal(b, &m) != nil {
		return nil
	}
	return m[name]
}

// tryReplay drives a counterexample through the real code where a driver exists.
func tryReplay(ck *Checker, prop string, o *Obligation) (bool, any) {
	return replayObligation(ck, prop, o)
}

// uncheckedCallers: for every function verified in this run whose contract has preconditions, the static callers in the
// loaded packages that are not themselves under contract - there the precondition is assumed, not established.
func uncheckedCallers(ck *Checker, results []*funcResult) []string {
	need := map[string]*FuncContract{}
	for _, fr := range results {
		if fr.Ctr != nil && len(fr.Ctr.Requires) > 0 && !fr.Ctr.Extern {
			need[fr.Name] = fr.Ctr
		}
	}
	if len(need) == 0 || ck.prog == nil {
		return nil
	}
	seen := map[string]bool{}
	var out []string
	for fn := range ssautil.AllFunctions(ck.prog) {
		if fn.Pkg == nil || fn.Blocks == nil || !strings.HasPrefix(fn.Pkg.Pkg.Path(), modulePath) {
			continue
		}
		underContract := false
		if c := ck.contractOf(fn); c != nil && !c.Extern {
			underContract = true // call sites in functions under contract carry a requires[...] obligation, unless the callee is standalone
		}
		if strings.HasSuffix(fn.Pkg.Pkg.Path(), "_test") || strings.HasSuffix(ck.fset.Position(fn.Pos()).Filename, "_test.go") {
			continue
		}
		for _, b := range fn.Blocks {
			for _, ins := range b.Instrs {
				ci, ok := ins.(ssa.CallInstruction)
				if !ok {
					continue
				}
				callee, ok := ci.Common().Value.(*ssa.Function)
				if !ok {
					continue
				}
				name := callee.String()
				if o := callee.Origin(); o != nil {
					name = o.String()
				}
				if nc, ok := need[name]; !ok || (underContract && !nc.Standalone) {
					continue
				}
				key := name + " <- " + fn.String()
				if !seen[key] {
					seen[key] = true
					out = append(out, fmt.Sprintf("precondition of %s is assumed (not established) at its call in %s, which is not under contract", shortCallee(name), fn.String()))
				}
			}
		}
	}
	sort.Strings(out)
	return out
}
