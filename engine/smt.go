package main

import (
	"fmt"
	"math/big"
	"sort"
	"strings"
)

// Term is an SMT-LIB term with its sort, both as text.
type Term struct {
	S    string
	Sort string
}

const (
	sInt  = "Int"
	sBool = "Bool"
	sReal = "Real"
)

func arrSort(elem string) string { return "(Array Int " + elem + ")" }
func arrSortK(key, elem string) string {
	return "(Array " + key + " " + elem + ")"
}
func isArrSort(s string) bool { return strings.HasPrefix(s, "(Array ") }

// arrElemSort returns the element sort of "(Array K E)".
func arrElemSort(s string) string {
	if !isArrSort(s) {
		panic("not an array sort: " + s)
	}
	body := s[len("(Array ") : len(s)-1]
	// key is first token or parenthesised group
	i := 0
	if body[0] == '(' {
		d := 0
		for ; i < len(body); i++ {
			if body[i] == '(' {
				d++
			} else if body[i] == ')' {
				d--
				if d == 0 {
					i++
					break
				}
			}
		}
	} else {
		for i < len(body) && body[i] != ' ' {
			i++
		}
	}
	return strings.TrimSpace(body[i:])
}

func mkInt(n int64) Term {
	if n < 0 {
		return Term{fmt.Sprintf("(- %d)", -n), sInt}
	}
	return Term{fmt.Sprintf("%d", n), sInt}
}

func mkBig(n *big.Int) Term {
	if n.Sign() < 0 {
		return Term{"(- " + new(big.Int).Neg(n).String() + ")", sInt}
	}
	return Term{n.String(), sInt}
}

func mkReal(r *big.Rat) Term {
	neg := r.Sign() < 0
	a := new(big.Rat).Abs(r)
	var s string
	if a.IsInt() {
		s = a.Num().String() + ".0"
	} else {
		s = "(/ " + a.Num().String() + ".0 " + a.Denom().String() + ".0)"
	}
	if neg {
		s = "(- " + s + ")"
	}
	return Term{s, sReal}
}

var (
	tTrue  = Term{"true", sBool}
	tFalse = Term{"false", sBool}
	tZero  = Term{"0", sInt}
	tOne   = Term{"1", sInt}
)

func mkBool(b bool) Term {
	if b {
		return tTrue
	}
	return tFalse
}

func app(op, sort string, args ...Term) Term {
	var sb strings.Builder
	sb.WriteByte('(')
	sb.WriteString(op)
	for _, a := range args {
		sb.WriteByte(' ')
		sb.WriteString(a.S)
	}
	sb.WriteByte(')')
	return Term{sb.String(), sort}
}

func mkNot(a Term) Term {
	switch a.S {
	case "true":
		return tFalse
	case "false":
		return tTrue
	}
	if strings.HasPrefix(a.S, "(not ") {
		return Term{a.S[5 : len(a.S)-1], sBool}
	}
	return app("not", sBool, a)
}

func mkAnd(as ...Term) Term {
	var out []Term
	for _, a := range as {
		if a.S == "true" {
			continue
		}
		if a.S == "false" {
			return tFalse
		}
		out = append(out, a)
	}
	if len(out) == 0 {
		return tTrue
	}
	if len(out) == 1 {
		return out[0]
	}
	return app("and", sBool, out...)
}

func mkOr(as ...Term) Term {
	var out []Term
	for _, a := range as {
		if a.S == "false" {
			continue
		}
		if a.S == "true" {
			return tTrue
		}
		out = append(out, a)
	}
	if len(out) == 0 {
		return tFalse
	}
	if len(out) == 1 {
		return out[0]
	}
	return app("or", sBool, out...)
}

func mkImplies(a, b Term) Term {
	if a.S == "true" {
		return b
	}
	if a.S == "false" || b.S == "true" {
		return tTrue
	}
	return app("=>", sBool, a, b)
}

func mkEq(a, b Term) Term {
	if a.S == b.S {
		return tTrue
	}
	if a.Sort != b.Sort {
		// Int vs Real mixing
		if a.Sort == sInt && b.Sort == sReal {
			a = app("to_real", sReal, a)
		} else if a.Sort == sReal && b.Sort == sInt {
			b = app("to_real", sReal, b)
		} else {
			panic(fmt.Sprintf("mkEq sort mismatch: %s:%s vs %s:%s", a.S, a.Sort, b.S, b.Sort))
		}
	}
	if isNumLit(a.S) && isNumLit(b.S) {
		return tFalse // different literals (identical handled above)
	}
	return app("=", sBool, a, b)
}

func isNumLit(s string) bool {
	if s == "" {
		return false
	}
	if strings.HasPrefix(s, "(- ") && strings.HasSuffix(s, ")") {
		s = s[3 : len(s)-1]
	}
	for _, c := range s {
		if c < '0' || c > '9' {
			return false
		}
	}
	return true
}

func litVal(s string) (*big.Int, bool) {
	if !isNumLit(s) {
		return nil, false
	}
	neg := false
	if strings.HasPrefix(s, "(- ") {
		s = s[3 : len(s)-1]
		neg = true
	}
	n, ok := new(big.Int).SetString(s, 10)
	if !ok {
		return nil, false
	}
	if neg {
		n.Neg(n)
	}
	return n, true
}

func mkIte(c, a, b Term) Term {
	if c.S == "true" {
		return a
	}
	if c.S == "false" {
		return b
	}
	if a.S == b.S {
		return a
	}
	if a.Sort != b.Sort {
		panic(fmt.Sprintf("mkIte sort mismatch %s vs %s (%s / %s)", a.Sort, b.Sort, a.S, b.S))
	}
	return app("ite", a.Sort, c, a, b)
}

func mkSelect(arr, idx Term) Term {
	return app("select", arrElemSort(arr.Sort), arr, idx)
}

func mkStore(arr, idx, v Term) Term {
	return app("store", arr.Sort, arr, idx, v)
}

func mkCmp(op string, a, b Term) Term {
	if a.Sort != b.Sort {
		if a.Sort == sInt {
			a = app("to_real", sReal, a)
		} else if b.Sort == sInt {
			b = app("to_real", sReal, b)
		}
	}
	if x, ok := litVal(a.S); ok {
		if y, ok := litVal(b.S); ok {
			c := x.Cmp(y)
			switch op {
			case "<":
				return mkBool(c < 0)
			case "<=":
				return mkBool(c <= 0)
			case ">":
				return mkBool(c > 0)
			case ">=":
				return mkBool(c >= 0)
			}
		}
	}
	return app(op, sBool, a, b)
}

func mkArith(op string, a, b Term) Term {
	sort := a.Sort
	if a.Sort != b.Sort {
		if a.Sort == sInt {
			a = app("to_real", sReal, a)
		} else if b.Sort == sInt {
			b = app("to_real", sReal, b)
		}
		sort = sReal
	}
	if x, ok := litVal(a.S); ok && sort == sInt {
		if y, ok := litVal(b.S); ok {
			r := new(big.Int)
			switch op {
			case "+":
				return mkBig(r.Add(x, y))
			case "-":
				return mkBig(r.Sub(x, y))
			case "*":
				return mkBig(r.Mul(x, y))
			}
		}
	}
	if sort == sInt {
		if op == "+" && b.S == "0" {
			return a
		}
		if op == "+" && a.S == "0" {
			return b
		}
		if op == "-" && b.S == "0" {
			return a
		}
		if op == "*" && b.S == "1" {
			return a
		}
		if op == "*" && a.S == "1" {
			return b
		}
	}
	return app(op, sort, a, b)
}

// constArray builds ((as const (Array K E)) v).
func constArray(sort string, v Term) Term {
	return Term{"((as const " + sort + ") " + v.S + ")", sort}
}

// ---------------------------------------------------------------------
// persistent list of SMT commands (path condition incl. declarations)

type pcNode struct {
	prev *pcNode
	line string
	n    int
}

func (p *pcNode) push(line string) *pcNode {
	n := 1
	if p != nil {
		n = p.n + 1
	}
	return &pcNode{prev: p, line: line, n: n}
}

func (p *pcNode) lines() []string {
	if p == nil {
		return nil
	}
	out := make([]string, p.n)
	for q := p; q != nil; q = q.prev {
		out[q.n-1] = q.line
	}
	return out
}

// ---------------------------------------------------------------------
// global declarations (uninterpreted functions, initial heap arrays, spec funcs)

type Preamble struct {
	order []string
	seen  map[string]string
}

func newPreamble() *Preamble { return &Preamble{seen: map[string]string{}} }

func (p *Preamble) declare(name, text string) {
	if old, ok := p.seen[name]; ok {
		if old != text {
			panic("conflicting declarations of " + name + ":\n" + old + "\n" + text)
		}
		return
	}
	p.seen[name] = text
	p.order = append(p.order, name)
}

func (p *Preamble) text(sorted bool) string {
	names := append([]string(nil), p.order...)
	_ = sort.Strings
	var sb strings.Builder
	for _, n := range names {
		sb.WriteString(p.seen[n])
		sb.WriteByte('\n')
	}
	return sb.String()
}

func quoteSym(s string) string {
	simple := true
	for _, c := range s {
		if !(c >= 'a' && c <= 'z' || c >= 'A' && c <= 'Z' || c >= '0' && c <= '9' || c == '_' || c == '$' || c == '.' || c == '@' || c == '!') {
			simple = false
			break
		}
	}
	if simple && s != "" && !(s[0] >= '0' && s[0] <= '9') {
		return s
	}
	s = strings.ReplaceAll(s, "|", "!")
	s = strings.ReplaceAll(s, "\\", "!")
	return "|" + s + "|"
}

const smtPrelude = `(set-logic ALL)
(define-fun ws64 ((v Int)) Int (ite (> v 9223372036854775807) (- v 18446744073709551616) (ite (< v (- 9223372036854775808)) (+ v 18446744073709551616) v)))
(define-fun ws32 ((v Int)) Int (ite (> v 2147483647) (- v 4294967296) (ite (< v (- 2147483648)) (+ v 4294967296) v)))
(define-fun ws16 ((v Int)) Int (ite (> v 32767) (- v 65536) (ite (< v (- 32768)) (+ v 65536) v)))
(define-fun ws8 ((v Int)) Int (ite (> v 127) (- v 256) (ite (< v (- 128)) (+ v 256) v)))
(define-fun wu64 ((v Int)) Int (ite (> v 18446744073709551615) (- v 18446744073709551616) (ite (< v 0) (+ v 18446744073709551616) v)))
(define-fun wu32 ((v Int)) Int (ite (> v 4294967295) (- v 4294967296) (ite (< v 0) (+ v 4294967296) v)))
(define-fun wu16 ((v Int)) Int (ite (> v 65535) (- v 65536) (ite (< v 0) (+ v 65536) v)))
(define-fun wu8 ((v Int)) Int (ite (> v 255) (- v 256) (ite (< v 0) (+ v 256) v)))
(define-fun ms64 ((v Int)) Int (- (mod (+ v 9223372036854775808) 18446744073709551616) 9223372036854775808))
(define-fun ms32 ((v Int)) Int (- (mod (+ v 2147483648) 4294967296) 2147483648))
(define-fun ms16 ((v Int)) Int (- (mod (+ v 32768) 65536) 32768))
(define-fun ms8 ((v Int)) Int (- (mod (+ v 128) 256) 128))
(define-fun mu64 ((v Int)) Int (mod v 18446744073709551616))
(define-fun mu32 ((v Int)) Int (mod v 4294967296))
(define-fun mu16 ((v Int)) Int (mod v 65536))
(define-fun mu8 ((v Int)) Int (mod v 256))
(declare-fun dyntype (Int) Int)
(declare-fun slen (Int) Int)
(declare-fun sbyte (Int Int) Int)
(declare-fun sconcat (Int Int) Int)
(declare-fun maplen (Int) Int)
`
