package main

import (
	"go/ast"
	"go/token"
	"sort"
	"strings"

	"golang.org/x/tools/go/ssa"
)

// LoopInfo describes one natural loop of the CFG.
type LoopInfo struct {
	Header *ssa.BasicBlock
	Body   map[int]bool // block indices, including header
	K      int          // ordinal in source order
	Sig    string       // source text of the loop header
	Pos    token.Pos
	Spec   *LoopSpec
	AST    ast.Stmt
}

func dominates(a, b *ssa.BasicBlock) bool { return a.Dominates(b) }

// findLoops computes natural loops (merged per header).
func findLoops(fn *ssa.Function) []*LoopInfo {
	byHeader := map[int]*LoopInfo{}
	for _, b := range fn.Blocks {
		for _, s := range b.Succs {
			if dominates(s, b) {
				// back edge b -> s
				li := byHeader[s.Index]
				if li == nil {
					li = &LoopInfo{Header: s, Body: map[int]bool{s.Index: true}}
					byHeader[s.Index] = li
				}
				// collect nodes reaching b without passing s
				stack := []*ssa.BasicBlock{b}
				for len(stack) > 0 {
					n := stack[len(stack)-1]
					stack = stack[:len(stack)-1]
					if li.Body[n.Index] {
						continue
					}
					li.Body[n.Index] = true
					for _, p := range n.Preds {
						stack = append(stack, p)
					}
				}
			}
		}
	}
	var out []*LoopInfo
	for _, li := range byHeader {
		out = append(out, li)
	}
	sort.Slice(out, func(i, j int) bool { return out[i].Header.Index < out[j].Header.Index })
	return out
}

// astLoops returns the for/range statements of a function body in source order,
// not descending into function literals.
func astLoops(body ast.Node) []ast.Stmt {
	var out []ast.Stmt
	if body == nil {
		return nil
	}
	ast.Inspect(body, func(n ast.Node) bool {
		switch n := n.(type) {
		case *ast.FuncLit:
			return n == body
		case *ast.ForStmt:
			out = append(out, n)
		case *ast.RangeStmt:
			out = append(out, n)
		}
		return true
	})
	return out
}

func loopSigText(fset *token.FileSet, src []byte, s ast.Stmt) string {
	var from, to token.Pos
	switch s := s.(type) {
	case *ast.ForStmt:
		from, to = s.Pos(), s.Body.Lbrace
	case *ast.RangeStmt:
		from, to = s.Pos(), s.Body.Lbrace
	}
	a, b := fset.Position(from).Offset, fset.Position(to).Offset
	if a < 0 || b > len(src) || a >= b {
		return ""
	}
	return strings.Join(strings.Fields(string(src[a:b])), " ")
}

// bindLoops matches CFG loops with AST loops (smallest AST loop whose extent contains
// all positioned instructions of the CFG loop) and numbers the AST loops in source order.
func bindLoops(fn *ssa.Function, loops []*LoopInfo, fset *token.FileSet, src []byte) {
	var body ast.Node
	switch syn := fn.Syntax().(type) {
	case *ast.FuncDecl:
		body = syn.Body
	case *ast.FuncLit:
		body = syn
	}
	al := astLoops(body)
	for _, li := range loops {
		var lo, hi token.Pos
		for idx := range li.Body {
			for _, ins := range fn.Blocks[idx].Instrs {
				p := ins.Pos()
				if !p.IsValid() {
					continue
				}
				if !lo.IsValid() || p < lo {
					lo = p
				}
				if p > hi {
					hi = p
				}
			}
		}
		best := -1
		for k, s := range al {
			if s.Pos() <= lo && hi <= s.End() {
				if best < 0 || (al[best].End()-al[best].Pos()) > (s.End()-s.Pos()) {
					best = k
				}
			}
		}
		li.K = best
		if best >= 0 {
			li.AST = al[best]
			li.Pos = al[best].Pos()
			li.Sig = loopSigText(fset, src, al[best])
		}
	}
	// a `goto` to a label in front of a loop statement makes a second, enclosing CFG loop that maps to
	// the same statement: the larger one is the goto loop and carries no loop contract (havoc, invariant true)
	byK := map[int][]*LoopInfo{}
	for _, li := range loops {
		if li.K >= 0 {
			byK[li.K] = append(byK[li.K], li)
		}
	}
	for _, ls := range byK {
		if len(ls) < 2 {
			continue
		}
		small := ls[0]
		for _, li := range ls[1:] {
			if len(li.Body) < len(small.Body) {
				small = li
			}
		}
		for _, li := range ls {
			if li != small {
				li.K = -2
				li.Sig = "goto loop around: " + li.Sig
			}
		}
	}
}

// rootAlloc follows FieldAddr/IndexAddr chains to the root address value.
func rootAddr(v ssa.Value) ssa.Value {
	for {
		switch a := v.(type) {
		case *ssa.FieldAddr:
			v = a.X
		case *ssa.IndexAddr:
			// IndexAddr on a slice goes through memory; on pointer-to-array stays in the object
			if _, ok := a.X.Type().Underlying().(interface{ Elem() interface{} }); ok {
				return v
			}
			return v
		default:
			return v
		}
	}
}
