package main

import (
	"fmt"
	"go/ast"
	"go/constant"
	"go/parser"
	"go/token"
	"go/types"
	"math/big"
	"regexp"
	"strconv"
	"strings"

	"golang.org/x/tools/go/ssa"
)

// Env is the evaluation environment of a specification expression.
type Env struct {
	x           *Exec
	st          *State
	vars        map[string]Value
	atEntry     bool
	atReturn    bool
	rets        []Value
	retNames    []string
	oldState    *State
	loop        *LoopInfo
	pkg         *ssa.Package
	callee      bool
	calleeGhost map[string]Value
	pos         token.Pos
	spos        token.Pos // position whose lexical scope resolves names (call site of an event, return statement)
	lemma       bool
	callPre     *State // state just before the call of the event being handled
}

func (x *Exec) newEnv(st *State) *Env {
	return &Env{x: x, st: st, vars: map[string]Value{}, oldState: x.entry, pkg: x.fn.Pkg, retNames: namedResults(x.fn)}
}

func (x *Exec) newCalleeEnv(st *State, ctr *FuncContract, c *ssa.CallCommon) *Env {
	e := &Env{x: x, st: st, vars: map[string]Value{}, oldState: st, callee: true, pkg: x.calleePkg(c)}
	if ctr.PkgPath != "" {
		if p := x.ck.ssaPkgByPath(ctr.PkgPath); p != nil {
			e.pkg = p
		}
	}
	// a function literal: the variables it captured are read through the closure's bindings
	if mc := x.staticClosure(c); mc != nil {
		if fn, ok := mc.Fn.(*ssa.Function); ok {
			for i, fv := range fn.FreeVars {
				if i >= len(mc.Bindings) {
					break
				}
				bv, ok := st.regs[mc.Bindings[i]]
				if !ok || !isPointer(bv.T) {
					continue
				}
				e.vars[fv.Name()] = x.loadNoFacts(st, x.deref(bv))
			}
		}
	}
	return e
}

var untypedInt = types.Typ[types.UntypedInt]

func parseSpecExpr(s string) (ast.Expr, error) {
	s = rewriteImplies(s)
	e, err := parser.ParseExpr(s)
	if err != nil {
		return nil, fmt.Errorf("cannot parse %q: %v", s, err)
	}
	return e, nil
}

func (e *Env) evalString(s string) (v Value, err error) {
	ex, err := parseSpecExpr(s)
	if err != nil {
		return Value{}, err
	}
	defer func() {
		if r := recover(); r != nil {
			if _, ok := r.(unsupported); ok {
				panic(r)
			}
			if _, ok := r.(capError); ok {
				panic(r)
			}
			err = fmt.Errorf("in %q: %v", s, r)
		}
	}()
	return e.eval(ex), nil
}

func (e *Env) evalBool(s string) (Term, error) {
	var facts []Term
	prev := e.x.specFacts
	e.x.specFacts = &facts
	v, err := e.evalString(s)
	e.x.specFacts = prev
	if err != nil {
		return Term{}, err
	}
	if len(v.L) != 1 || v.L[0].Sort != sBool {
		return Term{}, fmt.Errorf("expression %q is not boolean", s)
	}
	// model axioms about references read by the clause hold unconditionally: add them to the path
	// condition (they constrain nothing but the allocation order of references)
	if e.st != nil && !e.lemma {
		seen := map[string]bool{}
		for _, f := range facts {
			if !seen[f.S] {
				seen[f.S] = true
				e.st.assume(f)
			}
		}
	}
	return v.L[0], nil
}

func (e *Env) sub(st *State) *Env {
	n := *e
	n.st = st
	return &n
}

func (e *Env) withVar(name string, v Value) *Env {
	n := *e
	n.vars = make(map[string]Value, len(e.vars)+1)
	for k, vv := range e.vars {
		n.vars[k] = vv
	}
	n.vars[name] = v
	return &n
}

func (e *Env) fail(format string, a ...any) Value {
	panic(fmt.Sprintf(format, a...))
}

func (e *Env) eval(ex ast.Expr) Value {
	switch n := ex.(type) {
	case *ast.ParenExpr:
		return e.eval(n.X)
	case *ast.BasicLit:
		switch n.Kind {
		case token.INT:
			bi, ok := new(big.Int).SetString(n.Value, 0)
			if !ok {
				return e.fail("bad integer literal %s", n.Value)
			}
			return scalar(untypedInt, mkBig(bi))
		case token.FLOAT:
			r, ok := new(big.Rat).SetString(n.Value)
			if !ok {
				return e.fail("bad float literal %s", n.Value)
			}
			return scalar(types.Typ[types.UntypedFloat], mkReal(r))
		case token.STRING:
			s, err := strconv.Unquote(n.Value)
			if err != nil {
				return e.fail("bad string literal %s", n.Value)
			}
			return scalar(types.Typ[types.String], e.x.strConst(s))
		case token.CHAR:
			s, err := strconv.Unquote(n.Value)
			if err != nil || len(s) == 0 {
				return e.fail("bad char literal %s", n.Value)
			}
			return scalar(untypedInt, mkInt(int64([]rune(s)[0])))
		}
	case *ast.Ident:
		return e.evalIdent(n.Name)
	case *ast.UnaryExpr:
		v := e.eval(n.X)
		switch n.Op {
		case token.NOT:
			return scalar(types.Typ[types.Bool], mkNot(v.one()))
		case token.SUB:
			if v.one().Sort == sReal {
				return scalar(v.T, app("-", sReal, v.one()))
			}
			return scalar(v.T, mkArith("-", tZero, v.one()))
		case token.ADD:
			return v
		}
	case *ast.StarExpr:
		v := e.eval(n.X)
		return e.x.loadNoFacts(e.st, e.x.deref(v))
	case *ast.BinaryExpr:
		return e.evalBinary(n)
	case *ast.SelectorExpr:
		return e.evalSelector(n)
	case *ast.IndexExpr:
		return e.evalIndex(n)
	case *ast.SliceExpr:
		return e.evalSliceExpr(n)
	case *ast.CallExpr:
		return e.evalCall(n)
	}
	return e.fail("unsupported specification expression %T", ex)
}

func (e *Env) evalBinary(n *ast.BinaryExpr) Value {
	bt := types.Typ[types.Bool]
	switch n.Op {
	case token.LAND:
		return scalar(bt, mkAnd(e.eval(n.X).one(), e.eval(n.Y).one()))
	case token.LOR:
		return scalar(bt, mkOr(e.eval(n.X).one(), e.eval(n.Y).one()))
	}
	l, r := e.eval(n.X), e.eval(n.Y)
	switch n.Op {
	case token.EQL, token.NEQ:
		eq := e.specEqual(l, r)
		if n.Op == token.NEQ {
			eq = mkNot(eq)
		}
		return scalar(bt, eq)
	case token.LSS, token.LEQ, token.GTR, token.GEQ:
		op := map[token.Token]string{token.LSS: "<", token.LEQ: "<=", token.GTR: ">", token.GEQ: ">="}[n.Op]
		if l.T != nil && isString(l.T) && l.T != untypedInt && r.T != nil && isString(r.T) {
			c, facts := e.x.strCmp(l.one(), r.one())
			if e.x.specFacts != nil {
				*e.x.specFacts = append(*e.x.specFacts, facts...)
			}
			return scalar(bt, mkCmp(op, c, tZero))
		}
		return scalar(bt, mkCmp(op, l.one(), r.one()))
	case token.ADD, token.SUB, token.MUL:
		if n.Op == token.ADD && isString(l.T) && l.T != untypedInt {
			return scalar(l.T, app("sconcat", sInt, l.one(), r.one()))
		}
		op := map[token.Token]string{token.ADD: "+", token.SUB: "-", token.MUL: "*"}[n.Op]
		t := l.T
		if t == untypedInt || t == nil {
			t = r.T
		}
		return scalar(t, mkArith(op, l.one(), r.one()))
	case token.QUO:
		if l.one().Sort == sReal || r.one().Sort == sReal {
			a, b := l.one(), r.one()
			if a.Sort == sInt {
				a = app("to_real", sReal, a)
			}
			if b.Sort == sInt {
				b = app("to_real", sReal, b)
			}
			return scalar(types.Typ[types.Float64], app("/", sReal, a, b))
		}
		return scalar(l.T, app("div", sInt, l.one(), r.one()))
	case token.REM:
		return scalar(l.T, app("mod", sInt, l.one(), r.one()))
	}
	return e.fail("unsupported operator %s in specification", n.Op)
}

func (e *Env) specEqual(l, r Value) Term {
	if len(l.L) == len(r.L) && !(isSlice0(l.T) && isSlice0(r.T)) {
		var cs []Term
		for k := range l.L {
			cs = append(cs, mkEq(l.L[k], r.L[k]))
		}
		return mkAnd(cs...)
	}
	if isSlice0(l.T) && isSlice0(r.T) {
		// identity of slice values (same backing, offset, length); capacity ignored
		return mkAnd(mkEq(l.L[0], r.L[0]), mkEq(l.L[1], r.L[1]), mkEq(l.L[2], r.L[2]))
	}
	if isSlice0(l.T) && len(r.L) == 1 {
		return mkEq(l.sliceArr(), tZero)
	}
	if isSlice0(r.T) && len(l.L) == 1 {
		return mkEq(r.sliceArr(), tZero)
	}
	panic(fmt.Sprintf("cannot compare %v and %v", l.T, r.T))
}

func isSlice0(t types.Type) bool { return t != nil && isSlice(t) }

func (e *Env) evalIdent(name string) Value {
	if v, ok := e.vars[name]; ok {
		return v
	}
	switch name {
	case "nil":
		return scalar(types.Typ[types.UntypedNil], tZero)
	case "true":
		return scalar(types.Typ[types.Bool], tTrue)
	case "false":
		return scalar(types.Typ[types.Bool], tFalse)
	}
	if e.callee {
		if v, ok := e.calleeGhost[name]; ok {
			return v
		}
	} else if !e.lemma {
		if v, ok := e.st.ghost[name]; ok {
			return v
		}
	}
	if e.atReturn {
		if strings.HasPrefix(name, "ret") {
			if k, err := strconv.Atoi(name[3:]); err == nil {
				if k < len(e.rets) {
					return e.rets[k]
				}
				return e.fail("no result %s", name)
			}
		}
		for i, rn := range e.retNames {
			if rn == name && rn != "" && rn != "_" && i < len(e.rets) {
				return e.rets[i]
			}
		}
	}
	if !e.callee && !e.lemma {
		if e.x.freeVars[name] {
			// a variable captured by reference: the closure holds its address
			if v, ok := e.x.params[name]; ok && isPointer(v.T) {
				return e.x.loadNoFacts(e.st, e.x.deref(v))
			}
		}
		if e.atReturn || e.atEntry {
			if v, ok := e.x.params[name]; ok {
				return v
			}
		}
		if v, ok := e.lookupLocal(name); ok {
			return v
		}
		if v, ok := e.x.params[name]; ok {
			return v
		}
		if as := e.x.allocsByName[name]; len(as) > 0 {
			// a local that has not been allocated on this path: its value is unconstrained
			el := as[0].Type().Underlying().(*types.Pointer).Elem()
			e.x.ck.qctr++
			leaves := flatten(el)
			v := Value{T: el, L: make([]Term, len(leaves))}
			for k, l := range leaves {
				sym := quoteSym(fmt.Sprintf("unalloc:%s%s!%d", name, l.Path, e.x.ck.qctr))
				e.x.pre.declare(sym, "(declare-fun "+sym+" () "+l.Sort+")")
				v.L[k] = Term{sym, l.Sort}
			}
			return v
		}
	}
	// package level
	if e.pkg != nil {
		if v, ok := e.pkgMember(e.pkg.Pkg, name); ok {
			return v
		}
	}
	return e.fail("unknown identifier %q", name)
}

// lookupLocal finds the local variable visible under the given name.
func (e *Env) lookupLocal(name string) (Value, bool) {
	x := e.x
	if name == "rangecount" && e.loop != nil {
		// number of completed iterations of the current range over a map
		for _, ins := range e.loop.Header.Instrs {
			if nx, ok := ins.(*ssa.Next); ok && !nx.IsString {
				if rg, ok := nx.Iter.(*ssa.Range); ok {
					if vis, ok := e.st.ghost[visitedName(rg)]; ok {
						mt := rg.X.Type().Underlying().(*types.Map)
						return scalar(types.Typ[types.Int], x.keySetSize(x.mapKeySort(mt), vis.one())), true
					}
				}
			}
		}
	}
	if name == "rangeindex" && e.loop != nil {
		// hidden index of the current range loop: the Alloc stored to in the header block
		for _, ins := range e.loop.Header.Instrs {
			if s, ok := ins.(*ssa.Store); ok {
				if a, ok := s.Addr.(*ssa.Alloc); ok && a.Comment == "rangeindex" {
					if c, ok := e.st.cellOf[a]; ok {
						return e.st.cells[c], true
					}
				}
			}
		}
	}
	// lexical scoping: the variable the name denotes at the place the clause talks about
	if pos := e.scopePos(); pos.IsValid() && x.fn != nil && x.fn.Pkg != nil && len(x.allocsByName[name]) > 1 {
		if sc := x.fn.Pkg.Pkg.Scope().Innermost(pos); sc != nil {
			if _, obj := sc.LookupParent(name, pos); obj != nil {
				if v, ok := obj.(*types.Var); ok {
					for _, a := range x.allocsByName[name] {
						if a.Pos() == v.Pos() {
							if pv, ok := e.st.regs[a]; ok {
								return x.loadNoFacts(e.st, x.deref(pv)), true
							}
						}
					}
				}
			}
		}
	}
	var best *ssa.Alloc
	for _, a := range x.allocsByName[name] {
		if _, ok := e.st.regs[a]; !ok {
			continue
		}
		if e.pos.IsValid() && a.Pos().IsValid() && a.Pos() > e.pos {
			continue
		}
		if e.loop != nil && e.loop.Pos.IsValid() && a.Pos().IsValid() && a.Pos() > e.loop.Pos {
			// declared inside or after the loop: not visible at its head
			if e.loop.AST != nil && a.Pos() > e.loop.AST.Pos() && !e.declaredInLoopHeader(a) {
				continue
			}
		}
		if best == nil || a.Pos() > best.Pos() {
			best = a
		}
	}
	if best == nil {
		return Value{}, false
	}
	pv := e.st.regs[best]
	return x.loadNoFacts(e.st, x.deref(pv)), true
}

// scopePos is the source position whose lexical scope decides what a name means in this clause.
func (e *Env) scopePos() token.Pos {
	if e.spos.IsValid() {
		return e.spos
	}
	if e.loop != nil && e.loop.AST != nil {
		switch s := e.loop.AST.(type) {
		case *ast.ForStmt:
			return s.Body.Lbrace + 1
		case *ast.RangeStmt:
			return s.Body.Lbrace + 1
		}
	}
	return token.NoPos
}

func (e *Env) declaredInLoopHeader(a *ssa.Alloc) bool {
	switch s := e.loop.AST.(type) {
	case *ast.ForStmt:
		return a.Pos() < s.Body.Lbrace
	case *ast.RangeStmt:
		return a.Pos() < s.Body.Lbrace
	}
	return false
}

func (e *Env) pkgMember(pkg *types.Package, name string) (Value, bool) {
	obj := pkg.Scope().Lookup(name)
	if obj == nil {
		return Value{}, false
	}
	switch o := obj.(type) {
	case *types.Const:
		return e.constVal(o), true
	case *types.Var:
		sp := e.x.ck.prog.Package(pkg)
		if sp == nil {
			return Value{}, false
		}
		g, ok := sp.Members[name].(*ssa.Global)
		if !ok {
			return Value{}, false
		}
		if c := e.x.ck.constGlobal(g); c != nil {
			return e.x.constValue(c), true
		}
		gp := e.x.globalPtr(e.st, g)
		return e.x.loadNoFacts(e.st, gp.P), true
	}
	return Value{}, false
}

func (e *Env) constVal(o *types.Const) Value {
	t := o.Type()
	val := o.Val()
	switch val.Kind() {
	case constant.Bool:
		return scalar(t, mkBool(constant.BoolVal(val)))
	case constant.String:
		return scalar(t, e.x.strConst(constant.StringVal(val)))
	case constant.Int:
		if bi, ok := constant.Val(val).(*big.Int); ok {
			return scalar(t, mkBig(bi))
		}
		i64, _ := constant.Int64Val(val)
		return scalar(t, mkInt(i64))
	case constant.Float:
		if isIntType(t) {
			i64, _ := constant.Int64Val(constant.ToInt(val))
			return scalar(t, mkInt(i64))
		}
		switch fv := constant.Val(val).(type) {
		case *big.Rat:
			return scalar(t, mkReal(fv))
		case *big.Float:
			r, _ := fv.Rat(nil)
			return scalar(t, mkReal(r))
		}
	}
	return e.fail("unsupported constant %s", o.Name())
}

func (e *Env) importedPkg(name string) *types.Package {
	if e.pkg == nil {
		return nil
	}
	for _, imp := range e.pkg.Pkg.Imports() {
		if imp.Name() == name {
			return imp
		}
	}
	// any loaded package with that name (contracts may mention packages the code does not import)
	return e.x.ck.pkgByName(name)
}

func (e *Env) evalSelector(n *ast.SelectorExpr) Value {
	if id, ok := n.X.(*ast.Ident); ok {
		if _, shadow := e.vars[id.Name]; !shadow {
			if _, isLocal := e.tryIdent(id.Name); !isLocal {
				if p := e.importedPkg(id.Name); p != nil {
					if v, ok := e.pkgMember(p, n.Sel.Name); ok {
						return v
					}
					return e.fail("package %s has no constant or variable %s", id.Name, n.Sel.Name)
				}
			}
		}
	}
	base := e.eval(n.X)
	return e.selectField(base, n.Sel.Name)
}

func (e *Env) tryIdent(name string) (v Value, ok bool) {
	defer func() {
		if r := recover(); r != nil {
			ok = false
		}
	}()
	return e.evalIdent(name), true
}

// selectField implements v.name with automatic dereference and embedded-field promotion.
func (e *Env) selectField(base Value, name string) Value {
	if base.T == nil {
		return e.fail("selector .%s on untyped value", name)
	}
	obj, index, _ := types.LookupFieldOrMethod(base.T, true, nil, name)
	if obj == nil {
		// unexported field of another package needs that package for lookup
		if nt := namedOf(base.T); nt != nil && nt.Obj().Pkg() != nil {
			obj, index, _ = types.LookupFieldOrMethod(base.T, true, nt.Obj().Pkg(), name)
		}
	}
	if _, ok := obj.(*types.Var); !ok {
		return e.fail("type %v has no field %s", base.T, name)
	}
	cur := base
	for _, idx := range index {
		if isPointer(cur.T) {
			p := e.x.deref(cur)
			stt := p.Sub.Underlying().(*types.Struct)
			off, _ := fieldRange(stt, idx)
			np := &Ptr{Kind: p.Kind, Cell: p.Cell, Obj: p.Obj, Idx: p.Idx, Base: p.Base, Off: p.Off + off, Sub: stt.Field(idx).Type(), ArrIdx: p.ArrIdx}
			cur = e.x.loadNoFacts(e.st, np)
			continue
		}
		stt, ok := cur.T.Underlying().(*types.Struct)
		if !ok {
			return e.fail("selector on non-struct %v", cur.T)
		}
		off, cnt := fieldRange(stt, idx)
		cur = Value{T: stt.Field(idx).Type(), L: cur.L[off : off+cnt]}
	}
	return cur
}

func namedOf(t types.Type) *types.Named {
	for {
		switch u := t.(type) {
		case *types.Named:
			return u
		case *types.Pointer:
			t = u.Elem()
		case *types.Alias:
			t = types.Unalias(u)
		default:
			return nil
		}
	}
}

func (e *Env) elemValue(sl Value, idx Term) Value {
	st := sl.T.Underlying().(*types.Slice)
	p := &Ptr{Kind: pElem, Obj: sl.sliceArr(), Idx: mkArith("+", sl.sliceOff(), idx), Base: st.Elem(), Off: 0, Sub: st.Elem()}
	return e.x.loadNoFacts(e.st, p)
}

func (e *Env) evalIndex(n *ast.IndexExpr) Value {
	base := e.eval(n.X)
	idx := e.eval(n.Index)
	switch u := base.T.Underlying().(type) {
	case *types.Slice:
		return e.elemValue(base, idx.one())
	case *types.Array:
		v := Value{T: u.Elem(), L: make([]Term, len(base.L))}
		for k := range base.L {
			v.L[k] = mkSelect(base.L[k], idx.one())
		}
		return v
	case *types.Map:
		v, _ := e.x.mapLookup(e.st, u, base.one(), idx.one())
		return v
	case *types.Basic:
		if u.Info()&types.IsString != 0 {
			return scalar(types.Typ[types.Uint8], app("sbyte", sInt, base.one(), idx.one()))
		}
	case *types.Pointer:
		if at, ok := u.Elem().Underlying().(*types.Array); ok {
			p := e.x.deref(base)
			if p.Kind == pArr {
				np := &Ptr{Kind: pElem, Obj: p.Obj, Idx: idx.one(), Base: at.Elem(), Sub: at.Elem()}
				return e.x.loadNoFacts(e.st, np)
			}
		}
	}
	return e.fail("cannot index %v", base.T)
}

func (e *Env) evalSliceExpr(n *ast.SliceExpr) Value {
	base := e.eval(n.X)
	if !isSlice(base.T) {
		return e.fail("slice expression on %v", base.T)
	}
	lo := tZero
	hi := base.sliceLen()
	if n.Low != nil {
		lo = e.eval(n.Low).one()
	}
	if n.High != nil {
		hi = e.eval(n.High).one()
	}
	return mkSliceVal(base.T, base.sliceArr(), mkArith("+", base.sliceOff(), lo), mkArith("-", hi, lo), mkArith("-", base.sliceCap(), lo))
}

func (e *Env) quant(q string, args []ast.Expr) Value {
	id, ok := args[0].(*ast.Ident)
	if !ok {
		return e.fail("%s: first argument must be a variable name", q)
	}
	e.x.ck.qctr++
	vname := fmt.Sprintf("%s!q%d", id.Name, e.x.ck.qctr)
	bv := scalar(types.Typ[types.Int], Term{vname, sInt})
	inner := e.withVar(id.Name, bv)
	var rng Term = tTrue
	var body Term
	switch len(args) {
	case 2:
		body = inner.eval(args[1]).one()
	case 4:
		lo := e.eval(args[1]).one()
		hi := e.eval(args[2]).one()
		rng = mkAnd(mkCmp("<=", lo, bv.one()), mkCmp("<", bv.one(), hi))
		body = inner.eval(args[3]).one()
	default:
		return e.fail("%s takes (var, body) or (var, lo, hi, body)", q)
	}
	var qbody Term
	if q == "forall" {
		qbody = mkImplies(rng, body)
	} else {
		qbody = mkAnd(rng, body)
	}
	return scalar(types.Typ[types.Bool], Term{mkQuant(q, vname, qbody.S), sBool})
}

func (e *Env) evalCall(n *ast.CallExpr) Value {
	bt := types.Typ[types.Bool]
	it := types.Typ[types.Int]
	fname := ""
	switch f := n.Fun.(type) {
	case *ast.Ident:
		fname = f.Name
	case *ast.SelectorExpr:
		// conversion like time.Duration(x) or pkg-qualified spec function: treat as conversion when it names a type
		if id, ok := f.X.(*ast.Ident); ok {
			if p := e.importedPkg(id.Name); p != nil {
				if v, ok := e.pureCall(p.Path(), f.Sel.Name, n.Args); ok {
					return v
				}
				if tn, ok := p.Scope().Lookup(f.Sel.Name).(*types.TypeName); ok && len(n.Args) == 1 {
					return e.convertTo(e.eval(n.Args[0]), tn.Type())
				}
				// package-qualified spec function or macro declared in that package's contract file
				if sf := e.x.ck.specFuncs[f.Sel.Name]; sf != nil && sf.PkgPath == p.Path() {
					fname = f.Sel.Name
				}
			}
		}
		if fname == "" {
			return e.fail("unsupported call %v in specification", n.Fun)
		}
	case *ast.ArrayType, *ast.StarExpr, *ast.ParenExpr:
		return e.fail("unsupported conversion in specification")
	}
	switch fname {
	case "old":
		if e.oldState == nil {
			return e.fail("old() not available here")
		}
		inner := e.sub(e.oldState)
		inner.atEntry = !e.callee
		return inner.eval(n.Args[0])
	case "cur":
		// cur(x): the current value of a parameter or local (parameters are mutable in Go)
		id, ok := n.Args[0].(*ast.Ident)
		if !ok {
			return e.fail("cur() takes an identifier")
		}
		if v, ok := e.lookupLocal(id.Name); ok {
			return v
		}
		return e.eval(n.Args[0])
	case "atcall":
		// atcall(e): value of e just before the call (in `on call` handlers)
		if e.callPre == nil {
			return e.eval(n.Args[0])
		}
		return e.sub(e.callPre).eval(n.Args[0])
	case "pre":
		if e.loop == nil {
			return e.fail("pre() is only available in loop invariants")
		}
		ps := e.st.loopPre[e.loop.Header.Index]
		if ps == nil {
			// evaluating the invariant at loop entry: the current state is the pre-state
			return e.eval(n.Args[0])
		}
		return e.sub(ps).eval(n.Args[0])
	case "len":
		a := e.eval(n.Args[0])
		switch {
		case isSlice(a.T):
			return scalar(it, a.sliceLen())
		case isString(a.T):
			return scalar(it, app("slen", sInt, a.one()))
		case isMap(a.T):
			return scalar(it, e.x.mapLen(e.st, a.T.Underlying().(*types.Map), a.one()))
		}
		if at, ok := a.T.Underlying().(*types.Array); ok {
			return scalar(it, mkInt(at.Len()))
		}
		return e.fail("len of %v", a.T)
	case "cap":
		a := e.eval(n.Args[0])
		if isSlice(a.T) {
			return scalar(it, a.sliceCap())
		}
		return e.fail("cap of %v", a.T)
	case "forall", "exists":
		return e.quant(fname, n.Args)
	case "ite":
		c := e.eval(n.Args[0]).one()
		a, b := e.eval(n.Args[1]), e.eval(n.Args[2])
		if len(a.L) != len(b.L) {
			return e.fail("ite branches differ in shape")
		}
		out := Value{T: a.T, L: make([]Term, len(a.L))}
		if a.T == untypedInt {
			out.T = b.T
		}
		for k := range a.L {
			x, y := a.L[k], b.L[k]
			if x.Sort != y.Sort {
				if x.Sort == sInt {
					x = app("to_real", sReal, x)
				} else if y.Sort == sInt {
					y = app("to_real", sReal, y)
				}
			}
			out.L[k] = mkIte(c, x, y)
		}
		return out
	case "implies":
		return scalar(bt, mkImplies(e.eval(n.Args[0]).one(), e.eval(n.Args[1]).one()))
	case "iff":
		return scalar(bt, mkEq(e.eval(n.Args[0]).one(), e.eval(n.Args[1]).one()))
	case "inmap":
		m := e.eval(n.Args[0])
		k := e.eval(n.Args[1])
		mt := m.T.Underlying().(*types.Map)
		_, ok := e.x.mapLookup(e.st, mt, m.one(), k.one())
		return scalar(bt, ok)
	case "visited":
		k := e.eval(n.Args[0])
		if e.loop == nil {
			return e.fail("visited() outside of a loop invariant")
		}
		for _, ins := range e.loop.Header.Instrs {
			if nx, ok := ins.(*ssa.Next); ok {
				if rg, ok := nx.Iter.(*ssa.Range); ok {
					if vis, ok := e.st.ghost[visitedName(rg)]; ok {
						return scalar(bt, mkSelect(vis.one(), k.one()))
					}
				}
			}
		}
		return e.fail("visited(): loop is not a map range")
	case "dyntype":
		return scalar(it, app("dyntype", sInt, e.eval(n.Args[0]).one()))
	case "typeid":
		t := e.resolveTypeExpr(n.Args[0])
		return scalar(it, e.x.typeID(t))
	case "istype":
		v := e.eval(n.Args[0]).one()
		t := e.resolveTypeExpr(n.Args[1])
		return scalar(bt, mkAnd(mkNot(mkEq(v, tZero)), mkEq(app("dyntype", sInt, v), e.x.typeID(t))))
	case "unbox":
		// unbox(x, T): the concrete payload of interface value x assumed to hold a T
		v := e.eval(n.Args[0]).one()
		t := e.resolveTypeExpr(n.Args[1])
		leaves := flatten(t)
		e.x.boxFn(t)
		out := Value{T: t, L: make([]Term, len(leaves))}
		for k, l := range leaves {
			un := quoteSym(fmt.Sprintf("unbox:%s:%d", typeKey(t), k))
			out.L[k] = app(un, l.Sort, v)
		}
		return out
	case "sinkbuf":
		// sinkbuf(w): the *bytes.Buffer an io.Writer value writes to, when that is known in this activation
		v := e.eval(n.Args[0])
		p, class := e.x.resolveSinkValue(e.st, v, 0)
		if class != sinkKnown || p == nil || typeKey(p.Sub) != "bytes.Buffer" {
			return e.fail("unknown identifier: sinkbuf of a writer that is not a known bytes.Buffer")
		}
		return e.x.ptrValue(e.st, types.NewPointer(p.Sub), p)
	case "srcreader":
		// srcreader(r): the *bytes.Reader an io.Reader value reads from, when that is known in this activation
		v := e.eval(n.Args[0])
		p, class := e.x.resolveSinkValue(e.st, v, 0)
		if class != sinkKnown || p == nil || typeKey(p.Sub) != "bytes.Reader" {
			return e.fail("unknown identifier: srcreader of a reader that is not a known bytes.Reader")
		}
		return e.x.ptrValue(e.st, types.NewPointer(p.Sub), p)
	case "binsize":
		// binsize(v): the number of bytes encoding/binary writes for the value held by interface v
		// (known only when the interface value was made in this activation)
		v := e.eval(n.Args[0])
		if isInterface(v.T) && len(v.L) == 1 {
			bv, ok := e.st.boxed[v.L[0].S]
			if !ok {
				return e.fail("unknown identifier: binsize of an interface value of unknown dynamic type")
			}
			v = bv
		}
		t := v.T
		if pt, ok := t.Underlying().(*types.Pointer); ok {
			t = pt.Elem()
		}
		if sl, ok := t.Underlying().(*types.Slice); ok {
			es, ok := fixedBinSize(sl.Elem())
			if !ok {
				return e.fail("binsize of %v", t)
			}
			return scalar(it, mkArith("*", mkInt(int64(es)), v.sliceLen()))
		}
		sz, ok := fixedBinSize(t)
		if !ok {
			return e.fail("binsize of %v", t)
		}
		return scalar(it, mkInt(int64(sz)))
	case "samearr":
		a, b := e.eval(n.Args[0]), e.eval(n.Args[1])
		return scalar(bt, mkEq(a.L[0], b.L[0]))
	case "sameslice":
		a, b := e.eval(n.Args[0]), e.eval(n.Args[1])
		return scalar(bt, mkAnd(mkEq(a.L[0], b.L[0]), mkEq(a.L[1], b.L[1]), mkEq(a.L[2], b.L[2])))
	case "eqbytes":
		a, b := e.eval(n.Args[0]), e.eval(n.Args[1])
		e.x.ck.qctr++
		q := fmt.Sprintf("i!q%d", e.x.ck.qctr)
		ea := e.elemValue(a, Term{q, sInt}).one()
		eb := e.elemValue(b, Term{q, sInt}).one()
		body := mkQuant("forall", q, fmt.Sprintf("(=> (and (<= 0 %s) (< %s %s)) (= %s %s))", q, q, a.sliceLen().S, ea.S, eb.S))
		return scalar(bt, mkAnd(mkEq(a.sliceLen(), b.sliceLen()), Term{body, sBool}))
	case "int", "int64", "int32", "int16", "int8", "uint", "uint64", "uint32", "uint16", "uint8", "byte", "uintptr":
		v := e.eval(n.Args[0])
		t := types.Universe.Lookup(fname).Type()
		if v.one().Sort == sReal {
			return scalar(t, app("to_int", sInt, v.one()))
		}
		return scalar(t, v.one()) // mathematical: no wrap in specifications
	case "float32", "float64", "real":
		v := e.eval(n.Args[0])
		if v.one().Sort == sInt {
			return scalar(types.Typ[types.Float64], app("to_real", sReal, v.one()))
		}
		return scalar(types.Typ[types.Float64], v.one())
	case "wrap32u":
		return scalar(types.Typ[types.Uint32], app("mu32", sInt, e.eval(n.Args[0]).one()))
	case "wrap64":
		// the value an int64 variable holds after the same arithmetic (for ghosts that mirror a machine counter)
		return scalar(types.Typ[types.Int64], app("ws64", sInt, e.eval(n.Args[0]).one()))
	case "mulwrap64":
		// the value an int64 holds after a multiplication (true reduction modulo 2^64; wrap64 is the one-step form for sums)
		return scalar(types.Typ[types.Int64], app("ms64", sInt, e.eval(n.Args[0]).one()))
	case "min", "max":
		a, b := e.eval(n.Args[0]).one(), e.eval(n.Args[1]).one()
		if fname == "min" {
			return scalar(it, mkIte(mkCmp("<", a, b), a, b))
		}
		return scalar(it, mkIte(mkCmp(">", a, b), a, b))
	case "addr":
		// addr(lvalue): the address of a field / element / variable
		p := e.addrOf(n.Args[0])
		return e.x.ptrValuePure(types.NewPointer(p.Sub), p)
	case "emptyintmap":
		return Value{T: intmapType, L: []Term{constArray(arrSortK(sInt, sInt), tZero)}}
	case "mapput":
		m := e.eval(n.Args[0])
		return Value{T: intmapType, L: []Term{mkStore(m.L[0], e.eval(n.Args[1]).one(), e.eval(n.Args[2]).one())}}
	case "mapat":
		m := e.eval(n.Args[0])
		return scalar(it, mkSelect(m.L[0], e.eval(n.Args[1]).one()))
	case "emptyset":
		return Value{T: setType, L: []Term{constArray(arrSortK(sInt, sBool), tFalse)}}
	case "setadd":
		st := e.eval(n.Args[0])
		k := e.eval(n.Args[1])
		return Value{T: setType, L: []Term{mkStore(st.L[0], k.one(), tTrue)}}
	case "in":
		st := e.eval(n.Args[0])
		k := e.eval(n.Args[1])
		return scalar(bt, mkSelect(st.L[0], k.one()))
	case "iface":
		// iface(x): x converted to an interface value (the same term MakeInterface builds)
		v := e.eval(n.Args[0])
		if v.T == nil || isInterface(v.T) {
			return v
		}
		name, _ := e.x.boxFn(v.T)
		return scalar(types.NewInterfaceType(nil, nil), app(name, sInt, v.L...))
	case "elem":
		// elem(s, v): v occurs in slice s
		sl := e.eval(n.Args[0])
		v := e.eval(n.Args[1])
		e.x.ck.qctr++
		q := fmt.Sprintf("j!q%d", e.x.ck.qctr)
		ev := e.elemValue(sl, Term{q, sInt})
		body := mkQuant("exists", q, fmt.Sprintf("(and (<= 0 %s) (< %s %s) %s)", q, q, sl.sliceLen().S, e.specEqual(ev, v).S))
		return scalar(bt, Term{body, sBool})
	case "purecallb", "purecalli":
		// purecallb("callee name", args...): the uninterpreted function standing for a callee declared pure
		lit, ok := n.Args[0].(*ast.BasicLit)
		if !ok {
			return e.fail("%s: first argument must be a string literal", fname)
		}
		name, _ := strconv.Unquote(lit.Value)
		var flat []Term
		for _, a := range n.Args[1:] {
			flat = append(flat, e.eval(a).L...)
		}
		if fname == "purecallb" {
			return scalar(bt, e.x.uf(fmt.Sprintf("pure:%s:%d", name, 0), sBool, flat...))
		}
		return scalar(it, e.x.uf(fmt.Sprintf("pure:%s:%d", name, 0), sInt, flat...))
	case "freshsince":
		// freshsince(x): x was allocated after the state that old() refers to (in an extern's ensures: during the call)
		v := e.eval(n.Args[0])
		if e.oldState == nil {
			return e.fail("freshsince() needs an old state")
		}
		return scalar(bt, mkCmp(">", v.L[0], e.oldState.top))
	case "allocated":
		// allocated(p): p was allocated by the current function activation
		v := e.eval(n.Args[0])
		return scalar(bt, mkCmp(">", v.L[0], e.x.entry.top))
	}
	// type conversion to a package-level named type: T(x)
	if e.pkg != nil {
		if tn, ok := e.pkg.Pkg.Scope().Lookup(fname).(*types.TypeName); ok && len(n.Args) == 1 {
			return e.convertTo(e.eval(n.Args[0]), tn.Type())
		}
	}
	if e.pkg != nil {
		if v, ok := e.pureCall(e.pkg.Pkg.Path(), fname, n.Args); ok {
			return v
		}
	}
	// specification function
	if sf := e.x.ck.specFuncs[fname]; sf != nil {
		if sf.Macro {
			return e.applyMacro(sf, n.Args)
		}
		return e.applySpecFunc(sf, n.Args)
	}
	return e.fail("unknown function %q in specification", fname)
}

func (e *Env) convertTo(v Value, t types.Type) Value {
	if len(flatten(t)) == len(v.L) {
		if len(v.L) == 1 && flatten(t)[0].Sort == sReal && v.L[0].Sort == sInt {
			return scalar(t, app("to_real", sReal, v.L[0]))
		}
		return Value{T: t, L: v.L, P: v.P}
	}
	return e.fail("cannot convert to %v", t)
}

func (e *Env) resolveTypeExpr(ex ast.Expr) types.Type {
	t, err := e.x.ck.resolveTypeAST(ex, e.pkg)
	if err != nil {
		panic(err.Error())
	}
	return t
}

// applySpecFunc declares the function on demand and applies it.
func (e *Env) applySpecFunc(sf *SpecFunc, args []ast.Expr) Value {
	sig := e.x.ck.specSig(sf, e.x)
	if len(args) != len(sig.params) {
		return e.fail("spec function %s expects %d arguments", sf.Name, len(sig.params))
	}
	var flat []Term
	for i, a := range args {
		v := e.eval(a)
		v = coerceSpec(v, sig.params[i].t)
		flat = append(flat, v.L...)
	}
	leaves := flatten(sig.ret)
	if len(leaves) != 1 {
		return e.fail("spec function %s must return a scalar", sf.Name)
	}
	return scalar(sig.ret, app(quoteSym("spec:"+sf.Name), leaves[0].Sort, flat...))
}

func coerceSpec(v Value, t types.Type) Value {
	leaves := flatten(t)
	if len(leaves) == len(v.L) {
		out := Value{T: t, L: make([]Term, len(v.L)), P: v.P}
		for i := range leaves {
			out.L[i] = v.L[i]
			if leaves[i].Sort == sReal && v.L[i].Sort == sInt {
				out.L[i] = app("to_real", sReal, v.L[i])
			} else if leaves[i].Sort != v.L[i].Sort {
				panic(fmt.Sprintf("argument sort %s does not match parameter sort %s", v.L[i].Sort, leaves[i].Sort))
			}
		}
		return out
	}
	if len(v.L) == 1 && v.L[0].S == "0" {
		return zeroValue(t)
	}
	panic(fmt.Sprintf("argument of type %v does not fit parameter type %v", v.T, t))
}

// evalAddr evaluates an l-value expression to an address.
func (e *Env) evalAddr(s string) (p *Ptr, err error) {
	ex, err := parseSpecExpr(s)
	if err != nil {
		return nil, err
	}
	defer func() {
		if r := recover(); r != nil {
			err = fmt.Errorf("in l-value %q: %v", s, r)
		}
	}()
	return e.addrOf(ex), nil
}

func (e *Env) addrOf(ex ast.Expr) *Ptr {
	switch n := ex.(type) {
	case *ast.ParenExpr:
		return e.addrOf(n.X)
	case *ast.StarExpr:
		v := e.eval(n.X)
		if v.T != nil && isInterface(v.T) {
			bv, ok := e.st.boxed[v.one().S]
			if !ok || !isPointer(bv.T) {
				panic("interface value does not hold a known pointer")
			}
			return e.x.deref(bv)
		}
		return e.x.deref(v)
	case *ast.SelectorExpr:
		base := e.eval(n.X)
		var p *Ptr
		if isPointer(base.T) {
			p = e.x.deref(base)
		} else {
			p = e.addrOf(n.X)
		}
		stt, ok := p.Sub.Underlying().(*types.Struct)
		if !ok {
			panic(fmt.Sprintf("selector on %v", p.Sub))
		}
		for i := 0; i < stt.NumFields(); i++ {
			if stt.Field(i).Name() == n.Sel.Name {
				off, _ := fieldRange(stt, i)
				return &Ptr{Kind: p.Kind, Cell: p.Cell, Obj: p.Obj, Idx: p.Idx, Base: p.Base, Off: p.Off + off, Sub: stt.Field(i).Type(), ArrIdx: p.ArrIdx}
			}
		}
		panic(fmt.Sprintf("no field %s in %v", n.Sel.Name, p.Sub))
	case *ast.IndexExpr:
		base := e.eval(n.X)
		idx := e.eval(n.Index).one()
		if sl, ok := base.T.Underlying().(*types.Slice); ok {
			return &Ptr{Kind: pElem, Obj: base.sliceArr(), Idx: mkArith("+", base.sliceOff(), idx), Base: sl.Elem(), Sub: sl.Elem()}
		}
	case *ast.Ident:
		// a local variable or a package-level variable
		for _, a := range e.x.allocsByName[n.Name] {
			if pv, ok := e.st.regs[a]; ok {
				return e.x.deref(pv)
			}
		}
		if e.pkg != nil {
			if g, ok := e.pkg.Members[n.Name].(*ssa.Global); ok {
				return e.x.globalPtr(e.st, g).P
			}
		}
	}
	panic(fmt.Sprintf("not an addressable specification expression: %T", ex))
}

// applyMacro expands a macro: parameters are bound to the argument values and the body is
// evaluated in the current environment (so it may read the heap and use old()).
func (e *Env) applyMacro(sf *SpecFunc, args []ast.Expr) Value {
	ft, err := parseFuncType(sf.Params)
	if err != nil {
		return e.fail("macro %s: %v", sf.Name, err)
	}
	var names []string
	for _, fld := range ft.Params.List {
		for _, nm := range fld.Names {
			names = append(names, nm.Name)
		}
	}
	if len(names) != len(args) {
		return e.fail("macro %s expects %d arguments", sf.Name, len(names))
	}
	inner := *e
	inner.vars = make(map[string]Value, len(e.vars)+len(names))
	for k, v := range e.vars {
		inner.vars[k] = v
	}
	for i, a := range args {
		inner.vars[names[i]] = e.eval(a)
	}
	ex, err := parseSpecExpr(sf.Body)
	if err != nil {
		return e.fail("macro %s: %v", sf.Name, err)
	}
	return inner.eval(ex)
}

// pureCall applies the uninterpreted function that stands for a callee declared `pure`.
func (e *Env) pureCall(pkgPath, name string, args []ast.Expr) (Value, bool) {
	full := fullName(pkgPath, name)
	ctr := e.x.ck.contracts[full]
	if ctr == nil {
		ctr = e.x.ck.findExtern([]string{full})
		if ctr != nil && strings.HasSuffix(ctr.Name, "*") {
			ctr = nil
		}
	}
	if ctr == nil || !ctr.Pure {
		return Value{}, false
	}
	sp := e.x.ck.ssaPkgByPath(pkgPath)
	if sp == nil {
		return Value{}, false
	}
	fn, ok := sp.Members[name].(*ssa.Function)
	if !ok {
		return Value{}, false
	}
	var flat []Term
	for _, a := range args {
		flat = append(flat, e.eval(a).L...)
	}
	rt := fn.Signature.Results()
	if rt.Len() != 1 {
		return Value{}, false
	}
	leaves := flatten(rt.At(0).Type())
	out := Value{T: rt.At(0).Type(), L: make([]Term, len(leaves))}
	for k, lf := range leaves {
		out.L[k] = e.x.uf(fmt.Sprintf("pure:%s:%d", full, k), lf.Sort, flat...)
	}
	return out, true
}

// mkQuant builds a quantified formula over one Int variable. When the variable occurs as
// (+ OFF v) in array index positions, the formula is re-parametrised over the absolute index
// j = OFF + v (a bijection, so the meaning is unchanged): E-matching cannot use triggers that
// contain arithmetic, and the absolute form gives it the arithmetic-free trigger (select a j).
func mkQuant(q, v, body string) string {
	re := regexp.MustCompile(`\(\+ ((?:\|[^|]*\||[^\s()]+)|\((?:[^()]|\([^()]*\))*\)) ` + regexp.QuoteMeta(v) + `\)`)
	counts := map[string]int{}
	for _, m := range re.FindAllStringSubmatch(body, -1) {
		if !strings.Contains(m[1], v) {
			counts[m[1]]++
		}
	}
	best, n := "", 0
	for k, c := range counts {
		if c > n || (c == n && k < best) {
			best, n = k, c
		}
	}
	if n == 0 {
		return fmt.Sprintf("(%s ((%s Int)) %s)", q, v, body)
	}
	j := v + "!abs"
	ph := "\x00ABS\x00"
	out := strings.ReplaceAll(body, "(+ "+best+" "+v+")", ph)
	// remaining occurrences of v (delimited) become (- j OFF)
	reV := regexp.MustCompile(regexp.QuoteMeta(v) + `([\s)])`)
	out = reV.ReplaceAllString(out, "(- "+j+" "+best+")$1")
	out = strings.ReplaceAll(out, ph, j)
	return fmt.Sprintf("(%s ((%s Int)) %s)", q, j, out)
}

// fixedBinSize is encoding/binary.Size for fixed-size types.
func fixedBinSize(t types.Type) (int, bool) {
	switch u := t.Underlying().(type) {
	case *types.Basic:
		switch u.Kind() {
		case types.Bool, types.Int8, types.Uint8:
			return 1, true
		case types.Int16, types.Uint16:
			return 2, true
		case types.Int32, types.Uint32, types.Float32:
			return 4, true
		case types.Int64, types.Uint64, types.Float64, types.Complex64:
			return 8, true
		case types.Complex128:
			return 16, true
		}
		return 0, false
	case *types.Array:
		es, ok := fixedBinSize(u.Elem())
		return es * int(u.Len()), ok
	case *types.Struct:
		n := 0
		for i := 0; i < u.NumFields(); i++ {
			fs, ok := fixedBinSize(u.Field(i).Type())
			if !ok {
				return 0, false
			}
			n += fs
		}
		return n, true
	}
	return 0, false
}
