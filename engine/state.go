package main

import (
	"fmt"
	"go/types"
	"sort"
	"strings"

	"golang.org/x/tools/go/ssa"
)

type deferred struct {
	call  *ssa.CallCommon
	instr ssa.Instruction
	args  []Value
	fnv   Value
}

type iterState struct {
	mapVal  Value
	visited string // heap-like name of the visited set
	isStr   bool
}

// State is one symbolic execution state.
type State struct {
	pc     *pcNode
	regs   map[ssa.Value]Value
	cells  map[int]Value
	cellOf map[*ssa.Alloc]int
	heap   map[string]Term
	ghost  map[string]Value
	defers []deferred
	top    Term
	trace  []int // block indices
	inLoop map[int]bool
	loopPre map[int]*State // state at loop entry (before havoc), for pre()
	loopSnap map[int]*loopSnap // state right after the loop havoc, to validate the havoc set at the back edge
	writeLog []string           // heap arrays written so far on this path (allocation initialisers excluded)
	virgin   map[string]bool    // heap arrays whose current version is a fresh symbol nobody has read yet
	allocs []Term // references allocated in this activation
	boxed  map[string]Value // interface term -> the value it was made from
	sinkOf map[string]Value // pointer term of a wrapping writer (bufio.Writer, ...) -> the io.Writer value it writes to
	private map[string]bool // references allocated here that never escaped (survive havoc of unknown calls)
	heapTop map[string]Term // allocation top when the current version of a heap array was created
	entryTop Term
	epochTop Term
	dead   bool
}

func (s *State) clone() *State {
	n := &State{pc: s.pc, top: s.top, dead: s.dead, entryTop: s.entryTop, epochTop: s.epochTop}
	n.private = make(map[string]bool, len(s.private))
	for k, v := range s.private {
		n.private[k] = v
	}
	n.heapTop = make(map[string]Term, len(s.heapTop))
	for k, v := range s.heapTop {
		n.heapTop[k] = v
	}
	n.regs = make(map[ssa.Value]Value, len(s.regs))
	for k, v := range s.regs {
		n.regs[k] = v
	}
	n.cells = make(map[int]Value, len(s.cells))
	for k, v := range s.cells {
		n.cells[k] = v
	}
	n.cellOf = make(map[*ssa.Alloc]int, len(s.cellOf))
	for k, v := range s.cellOf {
		n.cellOf[k] = v
	}
	n.heap = make(map[string]Term, len(s.heap))
	for k, v := range s.heap {
		n.heap[k] = v
	}
	n.ghost = make(map[string]Value, len(s.ghost))
	for k, v := range s.ghost {
		n.ghost[k] = v
	}
	n.defers = append([]deferred(nil), s.defers...)
	n.trace = append([]int(nil), s.trace...)
	n.inLoop = make(map[int]bool, len(s.inLoop))
	for k, v := range s.inLoop {
		n.inLoop[k] = v
	}
	n.writeLog = append([]string(nil), s.writeLog...)
	n.virgin = make(map[string]bool, len(s.virgin))
	for k, v := range s.virgin {
		n.virgin[k] = v
	}
	n.loopSnap = make(map[int]*loopSnap, len(s.loopSnap))
	for k, v := range s.loopSnap {
		n.loopSnap[k] = v
	}
	n.loopPre = make(map[int]*State, len(s.loopPre))
	for k, v := range s.loopPre {
		n.loopPre[k] = v
	}
	n.allocs = append([]Term(nil), s.allocs...)
	n.sinkOf = make(map[string]Value, len(s.sinkOf))
	for k, v := range s.sinkOf {
		n.sinkOf[k] = v
	}
	n.boxed = make(map[string]Value, len(s.boxed))
	for k, v := range s.boxed {
		n.boxed[k] = v
	}
	return n
}

func (s *State) assume(t Term) {
	if t.S == "true" {
		return
	}
	if t.Sort != sBool {
		panic("assume non-bool: " + t.S)
	}
	s.pc = s.pc.push("(assert " + t.S + ")")
}

func (s *State) assumeAll(ts []Term) {
	for _, t := range ts {
		s.assume(t)
	}
}

// Exec-wide fresh name counter.
type namer struct{ n int }

func (x *Exec) fresh(st *State, hint string, sort string) Term {
	x.names.n++
	name := quoteSym(fmt.Sprintf("%s!%d", sanitize(hint), x.names.n))
	st.pc = st.pc.push("(declare-fun " + name + " () " + sort + ")")
	return Term{name, sort}
}

// freshValue creates an unconstrained value of type t with type facts assumed.
func (x *Exec) freshValue(st *State, hint string, t types.Type) Value {
	leaves := flatten(t)
	v := Value{T: t, L: make([]Term, len(leaves))}
	for i, l := range leaves {
		v.L[i] = x.fresh(st, hint+l.Path, l.Sort)
	}
	st.assumeAll(typeFacts(v))
	x.assumeOld(st, v)
	return v
}

// assumeOld states that reference-like leaves of v are not newer than the current allocation top.
func (x *Exec) assumeOld(st *State, v Value) {
	leaves := flatten(v.T)
	if len(leaves) != len(v.L) {
		return
	}
	for i, l := range leaves {
		if l.Kind == lkSliceArr || (l.Kind == lkPlain && l.T != nil && (isRefLike(l.T))) {
			st.assume(mkCmp("<=", v.L[i], st.top))
		}
	}
}

func zeroTerm(sort string) Term {
	switch sort {
	case sInt:
		return tZero
	case sBool:
		return tFalse
	case sReal:
		return Term{"0.0", sReal}
	}
	if isArrSort(sort) {
		return constArray(sort, zeroTerm(arrElemSort(sort)))
	}
	panic("zeroTerm: " + sort)
}

func zeroValue(t types.Type) Value {
	leaves := flatten(t)
	v := Value{T: t, L: make([]Term, len(leaves))}
	for i, l := range leaves {
		v.L[i] = zeroTerm(l.Sort)
	}
	return v
}

// ---------------------------------------------------------------------
// heap access

func (x *Exec) heapSort(kind string, leafSort string) string {
	if kind == "M" {
		return arrSort(arrSort(leafSort))
	}
	return arrSort(leafSort)
}

// heapCur returns the current version of a heap array, declaring the initial one on demand.
func (x *Exec) heapCur(st *State, kind string, base types.Type, leaf Leaf) Term {
	name := heapName(kind, base, leaf.Path)
	if t, ok := st.heap[name]; ok {
		return t
	}
	sort := x.heapSort(kind, leaf.Sort)
	sym := quoteSym(name + "@0")
	x.pre.declare(sym, "(declare-fun "+sym+" () "+sort+")")
	x.heapInfo[name] = heapMeta{kind, base, leaf}
	t := Term{sym, sort}
	return t
}

type heapMeta struct {
	kind string
	base types.Type
	leaf Leaf
}

func (x *Exec) heapSet(st *State, kind string, base types.Type, leaf Leaf, val Term) {
	name := heapName(kind, base, leaf.Path)
	x.heapInfo[name] = heapMeta{kind, base, leaf}
	f := x.fresh(st, name, val.Sort)
	st.assume(mkEq(f, val))
	st.heap[name] = f
	delete(st.virgin, name)
	x.setHeapTop(st, name)
	if !x.initWrite {
		st.writeLog = append(st.writeLog, name)
	}
}

func (x *Exec) setHeapTop(st *State, name string) {
	if st.heapTop == nil {
		st.heapTop = map[string]Term{}
	}
	st.heapTop[name] = st.top
}

// heapTopOf bounds every reference stored in the current version of the named heap array.
func (x *Exec) heapTopOf(st *State, name string) Term {
	if t, ok := st.heapTop[name]; ok {
		return t
	}
	if _, ok := st.heap["!epoch"]; ok && st.epochTop.S != "" {
		return st.epochTop
	}
	if st.entryTop.S != "" {
		return st.entryTop
	}
	return st.top
}

func (x *Exec) heapHavoc(st *State, name string) {
	m, ok := x.heapInfo[name]
	if !ok {
		return
	}
	f := x.fresh(st, name, x.heapSort(m.kind, m.leaf.Sort))
	st.heap[name] = f
	delete(st.virgin, name)
	x.setHeapTop(st, name)
}

// havocAllHeap replaces every heap array known so far by a fresh one.
// Arrays first touched later start from their (unconstrained) initial version
// only if they have never been read before; to stay sound, the epoch is bumped so
// that later first-touches get a new initial name.
func (x *Exec) havocAllHeap(st *State) {
	names := make([]string, 0, len(x.heapInfo))
	for n := range x.heapInfo {
		names = append(names, n)
	}
	sort.Strings(names)
	priv := sortedKeys(st.private)
	for _, n := range names {
		old, had := st.heap[n]
		x.heapHavoc(st, n)
		if had {
			for _, r := range priv {
				rt := Term{r, sInt}
				st.assume(mkEq(mkSelect(st.heap[n], rt), mkSelect(old, rt)))
			}
		}
	}
	for _, n := range sortedKeys(x.mapInfo) {
		old, had := st.heap[n]
		st.heap[n] = x.fresh(st, n, x.mapInfo[n])
		if had {
			for _, r := range priv {
				rt := Term{r, sInt}
				st.assume(mkEq(mkSelect(st.heap[n], rt), mkSelect(old, rt)))
			}
		}
	}
	st.heap["!epoch"] = Term{fmt.Sprintf("%d", x.names.n), sInt}
	nt := x.fresh(st, "top", sInt)
	st.assume(mkCmp(">=", nt, st.top))
	st.top = nt
	st.epochTop = nt
	for _, n := range names {
		st.heapTop[n] = nt
	}
}

func leafAt(base types.Type, i int) Leaf { return flatten(base)[i] }

// loadLeaf reads leaf j (relative to p.Off) through p.
func (x *Exec) loadLeaf(st *State, p *Ptr, j int) Term {
	var t Term
	switch p.Kind {
	case pLocal:
		t = st.cells[p.Cell].L[p.Off+j]
	case pHeap:
		lf := leafAt(p.Base, p.Off+j)
		t = mkSelect(x.heapCurE(st, "H", p.Base, lf), p.Obj)
	case pElem:
		lf := leafAt(p.Base, p.Off+j)
		t = mkSelect(mkSelect(x.heapCurE(st, "M", p.Base, lf), p.Obj), p.Idx)
	case pArr:
		// Sub is [N]E ; leaf j of Sub corresponds to leaf j of E
		lf := leafAt(p.Base, p.Off+j)
		t = mkSelect(x.heapCurE(st, "M", p.Base, lf), p.Obj)
		return t
	}
	for _, ix := range p.ArrIdx {
		t = mkSelect(t, ix)
	}
	return t
}

// heapCurE is heapCur that accounts for "havoc all" epochs: after a havoc-all, arrays never
// seen before must not alias their initial version.
func (x *Exec) heapCurE(st *State, kind string, base types.Type, leaf Leaf) Term {
	name := heapName(kind, base, leaf.Path)
	if t, ok := st.heap[name]; ok {
		if st.virgin[name] {
			delete(st.virgin, name)
		}
		return t
	}
	if ep, ok := st.heap["!epoch"]; ok {
		// first touch after a havoc-all: unconstrained array specific to this epoch
		sort := x.heapSort(kind, leaf.Sort)
		sym := quoteSym(name + "@e" + ep.S)
		x.pre.declare(sym, "(declare-fun "+sym+" () "+sort+")")
		x.heapInfo[name] = heapMeta{kind, base, leaf}
		t := Term{sym, sort}
		st.heap[name] = t
		return t
	}
	return x.heapCur(st, kind, base, leaf)
}

func (x *Exec) load(st *State, p *Ptr) Value {
	leaves := flatten(p.Sub)
	v := Value{T: p.Sub, L: make([]Term, len(leaves))}
	for j := range leaves {
		v.L[j] = x.loadLeaf(st, p, j)
	}
	if p.Kind == pHeap && len(x.ck.fieldRanges) > 0 {
		for j := range leaves {
			lf := leafAt(p.Base, p.Off+j)
			if r, ok := x.ck.fieldRanges[heapName("H", p.Base, lf.Path)]; ok {
				x.assumptions["fieldrange "+heapName("H", p.Base, lf.Path)+" in ["+r[0]+", "+r[1]+"]"] = true
				st.assume(mkAnd(mkCmp("<=", Term{r[0], sInt}, v.L[j]), mkCmp("<=", v.L[j], Term{r[1], sInt})))
			}
		}
	}
	if p.Kind != pLocal {
		st.assumeAll(typeFacts(v))
		kind := "H"
		if p.Kind == pElem || p.Kind == pArr {
			kind = "M"
		}
		for j, l := range leaves {
			if l.Kind == lkSliceArr || (l.Kind == lkPlain && l.T != nil && isRefLike(l.T)) {
				lf := leafAt(p.Base, p.Off+j)
				st.assume(mkCmp("<=", v.L[j], x.heapTopOf(st, heapName(kind, p.Base, lf.Path))))
			}
		}
	}
	return v
}

// loadNoFacts is used by spec evaluation (no pc side effects). Model axioms about the loaded
// references (not newer than the allocation top of their heap version) are collected in
// x.specFacts when a specification is being evaluated, and become antecedents of the clause.
func (x *Exec) loadNoFacts(st *State, p *Ptr) Value {
	leaves := flatten(p.Sub)
	v := Value{T: p.Sub, L: make([]Term, len(leaves))}
	for j := range leaves {
		v.L[j] = x.loadLeaf(st, p, j)
	}
	if x.specFacts != nil && p.Kind == pHeap && len(p.ArrIdx) == 0 {
		for j, l := range leaves {
			if l.Kind == lkSliceArr || (l.Kind == lkPlain && l.T != nil && isRefLike(l.T)) {
				lf := leafAt(p.Base, p.Off+j)
				if !strings.Contains(v.L[j].S, "!q") {
					*x.specFacts = append(*x.specFacts, mkCmp("<=", v.L[j], x.heapTopOf(st, heapName("H", p.Base, lf.Path))))
				}
			}
		}
	}
	return v
}

func nestStore(cur Term, idx []Term, v Term) Term {
	if len(idx) == 0 {
		return v
	}
	inner := nestStore(mkSelect(cur, idx[0]), idx[1:], v)
	return mkStore(cur, idx[0], inner)
}

func (x *Exec) store(st *State, p *Ptr, v Value) {
	if (p.Kind == pElem || p.Kind == pArr) && x.views[p.Obj.S] != nil {
		panic(unsupported{"UNSUPPORTED store through a slice of an array embedded in another object in " + x.funcName()})
	}
	leaves := flatten(p.Sub)
	if len(leaves) != len(v.L) {
		panic(fmt.Sprintf("store: leaf mismatch %v (%d) vs value %v (%d)", p.Sub, len(leaves), v.T, len(v.L)))
	}
	switch p.Kind {
	case pLocal:
		cell := st.cells[p.Cell]
		nl := append([]Term(nil), cell.L...)
		for j := range leaves {
			nl[p.Off+j] = nestStore(nl[p.Off+j], p.ArrIdx, v.L[j])
		}
		cell.L = nl
		st.cells[p.Cell] = cell
	case pHeap:
		for j := range leaves {
			lf := leafAt(p.Base, p.Off+j)
			cur := x.heapCurE(st, "H", p.Base, lf)
			nv := nestStore(cur, append([]Term{p.Obj}, p.ArrIdx...), v.L[j])
			x.heapSet(st, "H", p.Base, lf, nv)
		}
	case pElem:
		for j := range leaves {
			lf := leafAt(p.Base, p.Off+j)
			cur := x.heapCurE(st, "M", p.Base, lf)
			nv := nestStore(cur, append([]Term{p.Obj, p.Idx}, p.ArrIdx...), v.L[j])
			x.heapSet(st, "M", p.Base, lf, nv)
		}
	case pArr:
		for j := range leaves {
			lf := leafAt(p.Base, p.Off+j)
			cur := x.heapCurE(st, "M", p.Base, lf)
			x.heapSet(st, "M", p.Base, lf, mkStore(cur, p.Obj, v.L[j]))
		}
	}
}

const pArr ptrKind = 3

// deref turns a pointer value into an address description.
func (x *Exec) deref(v Value) *Ptr {
	if v.P != nil {
		return v.P
	}
	if len(v.L) == 1 {
		// a structured address that went through a variable or the heap keeps its term
		if pt, ok := v.T.Underlying().(*types.Pointer); ok {
			if p, ok := x.ptrs[v.L[0].S+"|"+typeKey(pt.Elem())]; ok {
				return p
			}
		}
	}
	pt, ok := v.T.Underlying().(*types.Pointer)
	if !ok {
		panic(fmt.Sprintf("deref of non-pointer %v", v.T))
	}
	el := pt.Elem()
	if at, ok := el.Underlying().(*types.Array); ok {
		return &Ptr{Kind: pArr, Obj: v.L[0], Base: at.Elem(), Off: 0, Sub: el}
	}
	return &Ptr{Kind: pHeap, Obj: v.L[0], Base: el, Off: 0, Sub: el}
}

// ptrValuePure is ptrValue without path-condition side effects (for specifications).
func (x *Exec) ptrValuePure(t types.Type, p *Ptr) Value { return x.ptrValue(nil, t, p) }

// ptrValue builds the Value for an address.
func (x *Exec) ptrValue(st *State, t types.Type, p *Ptr) Value {
	var term Term
	switch {
	case p.Kind == pHeap && p.Off == 0 && len(p.ArrIdx) == 0 && len(flatten(p.Base)) == len(flatten(p.Sub)):
		term = p.Obj
	case p.Kind == pArr:
		term = p.Obj
	case p.Kind == pLocal:
		sym := quoteSym(fmt.Sprintf("&cell%d.%d", p.Cell, p.Off))
		x.pre.declare(sym, "(declare-fun "+sym+" () Int)")
		term = Term{sym, sInt}
	case p.Kind == pHeap:
		args := append([]Term{p.Obj}, p.ArrIdx...)
		term = x.uf(fmt.Sprintf("fieldptr:%s:%d:%d", typeKey(p.Base), p.Off, len(p.ArrIdx)), sInt, args...)
	default:
		args := append([]Term{p.Obj, p.Idx}, p.ArrIdx...)
		term = x.uf(fmt.Sprintf("elemptr:%s:%d:%d", typeKey(p.Base), p.Off, len(p.ArrIdx)), sInt, args...)
	}
	if !(p.Kind == pHeap && term.S == p.Obj.S) && p.Kind != pArr {
		if x.ptrs == nil {
			x.ptrs = map[string]*Ptr{}
		}
		x.ptrs[term.S+"|"+typeKey(p.Sub)] = p
	}
	if st != nil && !(p.Kind == pHeap && term.S == p.Obj.S) && p.Kind != pArr {
		st.assume(mkCmp(">", term, tZero)) // addresses of variables, fields and elements are never nil
	}
	return Value{T: t, L: []Term{term}, P: p}
}

// escape marks references occurring in v as visible to other code.
func (st *State) escape(v Value) {
	if len(st.private) == 0 {
		return
	}
	for _, l := range v.L {
		if st.private[l.S] {
			delete(st.private, l.S)
		}
	}
}

// loopSnap remembers what the loop havoc replaced and what the state looked like right after it.
type loopSnap struct {
	logLen  int
	heap    map[string]Term
	cells   map[int]Value
	heapSet map[string]bool
	cellSet map[int]bool
	all     bool
}
