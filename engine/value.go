package main

import (
	"fmt"
	"go/types"
	"strings"
)

// Leaf describes one scalar (or array-sorted) component of a flattened Go type.
type Leaf struct {
	Path string     // ".f.g", "#arr", "#len", ...
	Sort string     // SMT sort
	T    types.Type // Go type of the leaf (nil for slice header parts)
	Kind leafKind
}

type leafKind int

const (
	lkPlain leafKind = iota
	lkSliceArr
	lkSliceOff
	lkSliceLen
	lkSliceCap
)

var flatCache = map[string][]Leaf{}

func typeKey(t types.Type) string { return types.TypeString(types.Unalias(t), nil) }

func flatten(t types.Type) []Leaf {
	k := typeKey(t)
	if l, ok := flatCache[k]; ok {
		return l
	}
	l := flatten0(t)
	flatCache[k] = l
	return l
}

var intmapType = types.NewNamed(types.NewTypeName(0, nil, "intmap", nil), types.NewStruct(nil, nil), nil)
var setType = types.NewNamed(types.NewTypeName(0, nil, "set", nil), types.NewStruct(nil, nil), nil)

func flatten0(t types.Type) []Leaf {
	if t == setType {
		return []Leaf{{"", arrSortK(sInt, sBool), nil, lkPlain}}
	}
	if t == intmapType {
		return []Leaf{{"", arrSortK(sInt, sInt), nil, lkPlain}}
	}
	switch u := t.Underlying().(type) {
	case *types.Basic:
		switch {
		case u.Info()&types.IsBoolean != 0:
			return []Leaf{{"", sBool, t, lkPlain}}
		case u.Info()&types.IsFloat != 0:
			return []Leaf{{"", sReal, t, lkPlain}}
		case u.Info()&types.IsComplex != 0:
			return []Leaf{{"", sInt, t, lkPlain}}
		default:
			return []Leaf{{"", sInt, t, lkPlain}}
		}
	case *types.Pointer, *types.Map, *types.Chan, *types.Signature, *types.Interface:
		return []Leaf{{"", sInt, t, lkPlain}}
	case *types.Slice:
		return []Leaf{
			{"#arr", sInt, nil, lkSliceArr},
			{"#off", sInt, nil, lkSliceOff},
			{"#len", sInt, nil, lkSliceLen},
			{"#cap", sInt, t, lkSliceCap}, // T = the slice type (for the element size)
		}
	case *types.Struct:
		var out []Leaf
		for i := 0; i < u.NumFields(); i++ {
			f := u.Field(i)
			for _, l := range flatten(f.Type()) {
				out = append(out, Leaf{"." + f.Name() + l.Path, l.Sort, l.T, l.Kind})
			}
		}
		return out
	case *types.Array:
		var out []Leaf
		for _, l := range flatten(u.Elem()) {
			out = append(out, Leaf{"[]" + l.Path, arrSort(l.Sort), nil, lkPlain})
		}
		return out
	case *types.Tuple:
		var out []Leaf
		for i := 0; i < u.Len(); i++ {
			for _, l := range flatten(u.At(i).Type()) {
				out = append(out, Leaf{fmt.Sprintf("#%d%s", i, l.Path), l.Sort, l.T, l.Kind})
			}
		}
		return out
	case *types.TypeParam:
		return []Leaf{{"", sInt, t, lkPlain}}
	}
	panic(fmt.Sprintf("flatten: unsupported type %s (%T)", t, t.Underlying()))
}

// fieldRange returns the leaf offset and count of field i of struct type st.
func fieldRange(st *types.Struct, i int) (off, n int) {
	for j := 0; j < i; j++ {
		off += len(flatten(st.Field(j).Type()))
	}
	return off, len(flatten(st.Field(i).Type()))
}

func tupleRange(tp *types.Tuple, i int) (off, n int) {
	for j := 0; j < i; j++ {
		off += len(flatten(tp.At(j).Type()))
	}
	return off, len(flatten(tp.At(i).Type()))
}

type ptrKind int

const (
	pLocal ptrKind = iota // a local cell
	pHeap                 // field(s) of a heap object addressed by Obj
	pElem                 // element Idx of backing array Obj
)

// Ptr is the engine-level description of an address.
type Ptr struct {
	Kind   ptrKind
	Cell   int
	Obj    Term
	Idx    Term
	Base   types.Type // type of the root object
	Off    int        // first leaf within flatten(Base)
	Sub    types.Type // type of the addressed sub-object
	ArrIdx []Term     // indices into array-sorted leaves (interior fixed arrays)
}

// Value is a flattened symbolic value.
type Value struct {
	T types.Type
	L []Term
	P *Ptr // non-nil for pointer values with known structure
}

func (v Value) one() Term {
	if len(v.L) != 1 {
		panic(fmt.Sprintf("value of type %v has %d leaves, expected 1", v.T, len(v.L)))
	}
	return v.L[0]
}

func scalar(t types.Type, term Term) Value { return Value{T: t, L: []Term{term}} }

func isSlice(t types.Type) bool {
	_, ok := t.Underlying().(*types.Slice)
	return ok
}
func isString(t types.Type) bool {
	b, ok := t.Underlying().(*types.Basic)
	return ok && b.Info()&types.IsString != 0
}
func isInterface(t types.Type) bool {
	_, ok := t.Underlying().(*types.Interface)
	return ok
}
func isPointer(t types.Type) bool {
	_, ok := t.Underlying().(*types.Pointer)
	return ok
}
func isMap(t types.Type) bool {
	_, ok := t.Underlying().(*types.Map)
	return ok
}
func isRefLike(t types.Type) bool {
	switch t.Underlying().(type) {
	case *types.Pointer, *types.Map, *types.Chan, *types.Signature:
		return true
	}
	return false
}

func (v Value) sliceArr() Term { return v.L[0] }
func (v Value) sliceOff() Term { return v.L[1] }
func (v Value) sliceLen() Term { return v.L[2] }
func (v Value) sliceCap() Term { return v.L[3] }

func mkSliceVal(t types.Type, arr, off, ln, cp Term) Value {
	return Value{T: t, L: []Term{arr, off, ln, cp}}
}

// intRange returns lo, hi bounds for an integer basic kind (64-bit platform).
func intRange(b *types.Basic) (lo, hi string, ok bool) {
	switch b.Kind() {
	case types.Int, types.Int64:
		return "(- 9223372036854775808)", "9223372036854775807", true
	case types.Int32:
		return "(- 2147483648)", "2147483647", true
	case types.Int16:
		return "(- 32768)", "32767", true
	case types.Int8:
		return "(- 128)", "127", true
	case types.Uint, types.Uint64, types.Uintptr:
		return "0", "18446744073709551615", true
	case types.Uint32:
		return "0", "4294967295", true
	case types.Uint16:
		return "0", "65535", true
	case types.Uint8:
		return "0", "255", true
	}
	return "", "", false
}

// wrapFn returns the name suffix ("s64", "u32", ...) for an integer type.
func wrapSuffix(t types.Type) (string, bool) {
	b, ok := t.Underlying().(*types.Basic)
	if !ok {
		return "", false
	}
	switch b.Kind() {
	case types.Int, types.Int64:
		return "s64", true
	case types.Int32:
		return "s32", true
	case types.Int16:
		return "s16", true
	case types.Int8:
		return "s8", true
	case types.Uint, types.Uint64, types.Uintptr:
		return "u64", true
	case types.Uint32:
		return "u32", true
	case types.Uint16:
		return "u16", true
	case types.Uint8:
		return "u8", true
	case types.UntypedInt, types.UntypedRune:
		return "", false
	}
	return "", false
}

func isIntType(t types.Type) bool {
	b, ok := t.Underlying().(*types.Basic)
	return ok && b.Info()&types.IsInteger != 0
}
func isFloatType(t types.Type) bool {
	b, ok := t.Underlying().(*types.Basic)
	return ok && b.Info()&types.IsFloat != 0
}
func isBoolType(t types.Type) bool {
	b, ok := t.Underlying().(*types.Basic)
	return ok && b.Info()&types.IsBoolean != 0
}

// typeFacts returns the range / shape facts that hold for any value of the leaf sorts of v.
func typeFacts(v Value) []Term {
	var out []Term
	leaves := flatten(v.T)
	if len(leaves) != len(v.L) {
		return nil
	}
	for i, l := range leaves {
		t := v.L[i]
		switch l.Kind {
		case lkSliceArr:
			// arr, off, len, cap
			arr, off, ln, cp := v.L[i], v.L[i+1], v.L[i+2], v.L[i+3]
			out = append(out,
				mkCmp(">=", arr, tZero),
				mkCmp(">=", off, tZero),
				mkCmp(">=", ln, tZero),
				mkCmp("<=", ln, cp),
				mkCmp("<=", cp, Term{maxSliceCap(l, leaves, i), sInt}),
				mkImplies(mkEq(arr, tZero), mkAnd(mkEq(cp, tZero), mkEq(off, tZero))),
			)
		case lkPlain:
			if l.T == nil {
				continue
			}
			if b, ok := l.T.Underlying().(*types.Basic); ok {
				if lo, hi, ok := intRange(b); ok {
					out = append(out, mkCmp("<=", Term{lo, sInt}, t), mkCmp("<=", t, Term{hi, sInt}))
				} else if b.Info()&types.IsString != 0 {
					sl := app("slen", sInt, t)
					out = append(out, mkCmp(">=", sl, tZero), mkCmp("<=", sl, Term{"9223372036854775807", sInt}), mkEq(mkEq(sl, tZero), mkEq(t, tZero)))
				}
			} else if isRefLike(l.T) || isInterface(l.T) {
				out = append(out, mkCmp(">=", t, tZero))
			}
		}
	}
	return out
}

func heapName(kind string, base types.Type, path string) string {
	return kind + ":" + typeKey(base) + ":" + path
}

func shortType(t types.Type) string {
	s := types.TypeString(t, func(p *types.Package) string { return p.Name() })
	return s
}

func sanitize(s string) string {
	r := strings.NewReplacer(" ", "_", "|", "!", "\\", "!", "(", "<", ")", ">")
	return r.Replace(s)
}

// maxSliceCap bounds the capacity of a slice by the address space: cap * elemsize <= MaxInt64.
func maxSliceCap(l Leaf, leaves []Leaf, i int) string {
	if i+3 < len(leaves) && leaves[i+3].T != nil {
		if sl, ok := leaves[i+3].T.Underlying().(*types.Slice); ok {
			sz := elemSize(sl.Elem())
			if sz > 1 {
				return fmt.Sprintf("%d", int64(9223372036854775807)/sz)
			}
		}
	}
	return "9223372036854775807"
}
