package main

import (
	"bytes"
	"context"
	"crypto/sha256"
	"encoding/hex"
	"fmt"
	"os"
	"os/exec"
	"path/filepath"
	"strings"
	"sync"
	"time"
)

type solverSpec struct {
	Name string
	Argv func(file string, timeoutS int) []string
}

var solvers = []solverSpec{
	{"z3-5.1.0", func(f string, t int) []string { return []string{"z3-new", fmt.Sprintf("-T:%d", t), f} }},
	{"z3-4.8.12", func(f string, t int) []string { return []string{"z3", fmt.Sprintf("-T:%d", t), f} }},
	{"cvc5-1.0", func(f string, t int) []string {
		return []string{"cvc5", fmt.Sprintf("--tlimit=%d", t*1000), "--produce-models", f}
	}},
}

func buildQuery(pre *Preamble, o *Obligation) string {
	var sb strings.Builder
	sb.WriteString("; obligation " + strings.ReplaceAll(o.Name, "\n", " ") + "\n")
	sb.WriteString("(set-option :produce-models true)\n")
	sb.WriteString(smtPrelude)
	sb.WriteString(pre.text(false))
	for _, l := range o.PC.lines() {
		sb.WriteString(l)
		sb.WriteByte('\n')
	}
	if !o.Assume {
		sb.WriteString("(assert (not " + o.Goal.S + "))\n")
	}
	sb.WriteString("(check-sat)\n")
	return sb.String()
}

type solveResult struct {
	Status string
	Solver string
	Time   float64
	Model  string
	All    map[string]string
}

func runSolver(s solverSpec, file string, timeoutS int, wantModel bool) (status, out string, dt float64) {
	return runSolverCtx(context.Background(), s, file, timeoutS)
}

func runSolverCtx(parent context.Context, s solverSpec, file string, timeoutS int) (status, out string, dt float64) {
	ctx, cancel := context.WithTimeout(parent, time.Duration(timeoutS+2)*time.Second)
	defer cancel()
	argv := s.Argv(file, timeoutS)
	cmd := exec.CommandContext(ctx, argv[0], argv[1:]...)
	var buf bytes.Buffer
	cmd.Stdout = &buf
	cmd.Stderr = &buf
	t0 := time.Now()
	_ = cmd.Run()
	dt = time.Since(t0).Seconds()
	out = buf.String()
	first := strings.TrimSpace(strings.SplitN(out, "\n", 2)[0])
	switch first {
	case "unsat", "sat", "unknown":
		status = first
	case "timeout":
		status = "timeout"
	default:
		if ctx.Err() != nil || strings.Contains(out, "timeout") || strings.Contains(out, "interrupted") {
			status = "timeout"
		} else {
			status = "error"
		}
	}
	return
}

// solve discharges one query: solvers are tried in order until one answers unsat (or sat);
// in thorough mode all solvers are run and recorded.
func solve(dir string, query string, timeoutS int, thorough bool, wantSat bool) solveResult {
	h := sha256.Sum256([]byte(query))
	file := filepath.Join(dir, hex.EncodeToString(h[:8])+".smt2")
	q := query
	if err := os.WriteFile(file, []byte(q+"(get-model)\n"), 0o644); err != nil {
		return solveResult{Status: "error", Model: err.Error()}
	}
	res := solveResult{Status: "unknown", All: map[string]string{}}
	if wantSat {
		// feasibility (cover) queries only need "not unsat": one solver, short limit
		st, _, dt := runSolver(solvers[0], file, 2, false)
		return solveResult{Status: st, Solver: solvers[0].Name, Time: dt, All: map[string]string{solvers[0].Name: st}}
	}
	if thorough {
		for _, s := range solvers {
			st, out, dt := runSolver(s, file, timeoutS, true)
			res.All[s.Name] = fmt.Sprintf("%s %.2fs", st, dt)
			decided := st == "unsat" || st == "sat"
			if decided && (res.Status != "unsat" && res.Status != "sat") {
				res.Status, res.Solver, res.Time = st, s.Name, dt
				if st == "sat" {
					if i := strings.Index(out, "\n"); i >= 0 {
						res.Model = out[i+1:]
					}
				}
			} else if !decided && res.Status != "unsat" && res.Status != "sat" {
				res.Status, res.Solver = st, s.Name
				res.Time += dt
				if st == "error" {
					res.Model = out
				}
			}
		}
		return res
	}
	// quick tier: the first solver gets a short head start, then all remaining solvers race
	type ans struct {
		name, st, out string
		dt            float64
	}
	st0, out0, dt0 := runSolver(solvers[0], file, 3, true)
	res.All[solvers[0].Name] = fmt.Sprintf("%s %.2fs", st0, dt0)
	if st0 == "unsat" || st0 == "sat" {
		res.Status, res.Solver, res.Time = st0, solvers[0].Name, dt0
		if st0 == "sat" {
			if i := strings.Index(out0, "\n"); i >= 0 {
				res.Model = out0[i+1:]
			}
		}
		return res
	}
	ch := make(chan ans, len(solvers))
	ctx, cancel := context.WithCancel(context.Background())
	defer cancel()
	for _, sv := range solvers {
		go func(sv solverSpec) {
			st, out, dt := runSolverCtx(ctx, sv, file, timeoutS)
			ch <- ans{sv.Name, st, out, dt}
		}(sv)
	}
	res.Status, res.Solver = st0, solvers[0].Name
	for range solvers {
		a := <-ch
		res.All[a.name] = fmt.Sprintf("%s %.2fs", a.st, a.dt)
		if a.st == "unsat" || a.st == "sat" {
			res.Status, res.Solver, res.Time = a.st, a.name, a.dt+dt0
			if a.st == "sat" {
				if i := strings.Index(a.out, "\n"); i >= 0 {
					res.Model = a.out[i+1:]
				}
			}
			cancel()
			return res
		}
		res.Status, res.Solver = a.st, a.name
		res.Time = a.dt + dt0
	}
	return res
}

type job struct {
	o     *Obligation
	query string
}

func solveAll(dir string, jobs []job, timeoutS int, thorough bool, workers int) {
	var wg sync.WaitGroup
	ch := make(chan job)
	cache := sync.Map{}
	for w := 0; w < workers; w++ {
		wg.Add(1)
		go func() {
			defer wg.Done()
			for j := range ch {
				if j.o.Goal.S == "true" && !j.o.Assume {
					j.o.Status, j.o.Solver = "unsat", "syntactic"
					continue
				}
				if v, ok := cache.Load(j.query); ok {
					r := v.(solveResult)
					j.o.Status, j.o.Solver, j.o.Time, j.o.Model = r.Status, r.Solver+" (cached)", 0, r.Model
					continue
				}
				r := solve(dir, j.query, timeoutS, thorough, j.o.Assume)
				cache.Store(j.query, r)
				j.o.Status, j.o.Solver, j.o.Time, j.o.Model = r.Status, r.Solver, r.Time, r.Model
				if thorough {
					var parts []string
					for _, k := range sortedKeys(r.All) {
						parts = append(parts, k+": "+r.All[k])
					}
					j.o.Note += " | solvers: " + strings.Join(parts, "; ")
				}
			}
		}()
	}
	for _, j := range jobs {
		ch <- j
	}
	close(ch)
	wg.Wait()
	// second chance: a query that ran out of time while every core was busy is tried again on its own, with all
	// solvers racing and a long limit, before it is reported as undischarged (a loaded machine must not turn
	// into an accusation)
	if thorough {
		return
	}
	retried := map[string]solveResult{}
	for _, j := range jobs {
		if j.o.Assume || (j.o.Status != "timeout" && j.o.Status != "unknown" && j.o.Status != "error") {
			continue
		}
		r, ok := retried[j.query]
		if !ok {
			r = solve(dir, j.query, 60, false, false)
			retried[j.query] = r
		}
		j.o.Note += fmt.Sprintf(" | first pass: %s by %s; retried alone", j.o.Status, j.o.Solver)
		j.o.Status, j.o.Solver, j.o.Time, j.o.Model = r.Status, r.Solver, j.o.Time+r.Time, r.Model
	}
}
