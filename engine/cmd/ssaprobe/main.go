package main

import (
	"fmt"
	"os"
	"strings"

	"golang.org/x/tools/go/packages"
	"golang.org/x/tools/go/ssa"
	"golang.org/x/tools/go/ssa/ssautil"
)

func main() {
	pkgpat := os.Args[1]
	fnames := os.Args[2:]
	cfg := &packages.Config{Mode: packages.LoadSyntax, Dir: "/repo", BuildFlags: []string{"-tags=verif"}}
	pkgs, err := packages.Load(cfg, pkgpat)
	if err != nil {
		panic(err)
	}
	prog, spkgs := ssautil.Packages(pkgs, ssa.NaiveForm|ssa.InstantiateGenerics)
	_ = prog
	for _, sp := range spkgs {
		sp.Build()
		for fn := range ssautil.AllFunctions(prog) {
			if fn.Pkg != sp {
				continue
			}
			for _, n := range fnames {
				if strings.HasSuffix(fn.String(), n) {
					fn.WriteTo(os.Stdout)
					fmt.Println()
				}
			}
		}
	}
}
