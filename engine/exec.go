package main

import (
	"fmt"
	"go/constant"
	"go/token"
	"go/types"
	"math/big"
	"os"
	"sort"
	"strings"

	"golang.org/x/tools/go/ssa"
)

// Obligation is one proof obligation instance (one path through one function).
type Obligation struct {
	Name   string // stable identity: <pkg>.<func>#<kind>[<label>]
	Func   string
	Kind   string
	PC     *pcNode
	Goal   Term
	Pos    string
	Trace  []int
	Note   string
	Assume bool // vacuity / cover query (expects sat)
	// results
	Status string // unsat (discharged) | sat | unknown | timeout
	Solver string
	Time   float64
	Model  string
	File   string
}

type capError struct{ msg string }

func (e capError) Error() string { return e.msg }

type unsupported struct{ msg string }

func (e unsupported) Error() string { return e.msg }

// Exec verifies one function.
type Exec struct {
	views      map[string]*Ptr // element-memory references that are read-only views of arrays embedded in objects
	closureOf  map[*ssa.Alloc]*ssa.MakeClosure // locals assigned a function literal exactly once
	freeVars   map[string]bool // names of variables a closure captured by reference
	paramTerms map[string]bool // interface-typed parameter values (their pointees existed at entry)
	initWrite bool // heapSet calls that only initialise a fresh allocation (not recorded as loop writes)
	ck       *Checker
	fn       *ssa.Function
	ctr      *FuncContract
	pre      *Preamble
	names    namer
	heapInfo map[string]heapMeta
	obls     []*Obligation
	loops    []*LoopInfo
	loopAt   map[int]*LoopInfo
	entry    *State
	params   map[string]Value
	paths    int
	ordinals map[ssa.Instruction]int
	assumptions map[string]bool
	nopanic  bool
	falsePost bool // vacuity mode: add "ensures false" at returns
	retReached int
	mapInfo  map[string]string
	frame    []region
	frameDone bool
	frameOrd int
	ptrs     map[string]*Ptr
	specFacts *[]Term
	pendingMapHavoc map[string]bool
	allocsByName map[string][]*ssa.Alloc
}

const maxPaths = 4000

func (x *Exec) note(s string) { x.assumptions[s] = true }

func (x *Exec) funcName() string {
	return x.fn.String()
}

func (x *Exec) posOf(p token.Pos) string {
	if !p.IsValid() {
		return ""
	}
	pos := x.ck.fset.Position(p)
	return fmt.Sprintf("%s:%d", strings.TrimPrefix(pos.Filename, x.ck.repo+"/"), pos.Line)
}

func (x *Exec) oblige(st *State, kind, label string, goal Term, pos token.Pos, note string) {
	if goal.Sort != sBool {
		panic("obligation goal not Bool: " + goal.S)
	}
	o := &Obligation{
		Name:  fmt.Sprintf("%s#%s[%s]", x.funcName(), kind, label),
		Func:  x.funcName(),
		Kind:  kind,
		PC:    st.pc,
		Goal:  goal,
		Pos:   x.posOf(pos),
		Trace: append([]int(nil), st.trace...),
		Note:  note,
	}
	x.obls = append(x.obls, o)
}

// ---------------------------------------------------------------------

func (x *Exec) run() (err error) {
	defer func() {
		if r := recover(); r != nil {
			switch e := r.(type) {
			case capError:
				err = e
			case unsupported:
				err = e
			default:
				if os.Getenv("RELICVC_PANIC") != "" {
					panic(r)
				}
				err = fmt.Errorf("engine error in %s: %v", x.funcName(), r)
			}
		}
	}()
	fn := x.fn
	x.loops = findLoops(fn)
	x.loopAt = map[int]*LoopInfo{}
	src := x.ck.sourceOf(fn)
	bindLoops(fn, x.loops, x.ck.fset, src)
	for _, li := range x.loops {
		x.loopAt[li.Header.Index] = li
		if x.ctr != nil {
			if ls, ok := x.ctr.Loops[li.K]; ok {
				if ls.Sig != "" && ls.Sig != li.Sig {
					// the loop header text changed: the contract stays bound by ordinal and the
					// invariants decide; the change is reported so that a reader can tell
					x.ck.notes = append(x.ck.notes, fmt.Sprintf("NOTE: loop %d of %s: header is now %q (contract was written for %q)", li.K, x.funcName(), li.Sig, ls.Sig))
				}
				li.Spec = ls
			}
		}
	}
	if x.ctr != nil {
		for k, ls := range x.ctr.Loops {
			found := false
			for _, li := range x.loops {
				if li.K == k {
					found = true
				}
			}
			if !found {
				return unsupported{fmt.Sprintf("UNBOUND loop %d (%q) of %s: no such loop in the control-flow graph", k, ls.Sig, x.funcName())}
			}
		}
	}
	x.computeOrdinals()

	st := &State{
		regs: map[ssa.Value]Value{}, cells: map[int]Value{}, cellOf: map[*ssa.Alloc]int{},
		heap: map[string]Term{}, ghost: map[string]Value{}, inLoop: map[int]bool{}, loopPre: map[int]*State{},
	}
	st.top = x.fresh(st, "top", sInt)
	st.assume(mkCmp(">=", st.top, tZero))
	st.entryTop = st.top
	st.heapTop = map[string]Term{}
	x.params = map[string]Value{}
	x.paramTerms = map[string]bool{}
	for i, p := range fn.Params {
		v := x.freshValue(st, "p_"+p.Name(), p.Type())
		st.regs[p] = v
		x.params[p.Name()] = v
		if isInterface(p.Type()) && len(v.L) == 1 {
			x.paramTerms[v.L[0].S] = true
		}
		if i == 0 && fn.Signature.Recv() != nil && isPointer(p.Type()) && !(x.ctr != nil && x.ctr.NilReceiver) {
			st.assume(mkNot(mkEq(v.L[0], tZero)))
			x.note("pointer receiver assumed non-nil")
		}
	}
	x.freeVars = map[string]bool{}
	for _, fv := range fn.FreeVars {
		v := x.freshValue(st, "fv_"+fv.Name(), fv.Type())
		st.regs[fv] = v
		x.params[fv.Name()] = v
		x.freeVars[fv.Name()] = true
		if isPointer(fv.Type()) {
			st.assume(mkNot(mkEq(v.L[0], tZero)))
		}
	}
	// ghost initialisation
	if x.ctr != nil {
		for _, g := range x.ctr.Ghosts {
			t, err := x.ck.resolveTypeString(g.Type, fn.Pkg)
			if err != nil {
				return fmt.Errorf("%s: ghost %s: %v", x.funcName(), g.Name, err)
			}
			if g.Init == "" {
				st.ghost[g.Name] = x.freshValue(st, "ghost_"+g.Name, t)
			} else {
				env := x.newEnv(st)
				env.atEntry = true
				v, err := env.evalString(g.Init)
				if err != nil {
					return fmt.Errorf("%s: ghost %s init: %v", x.funcName(), g.Name, err)
				}
				st.ghost[g.Name] = coerce(v, t)
			}
		}
	}
	x.entry = st.clone()
	if x.ctr != nil {
		for _, c := range x.ctr.Requires {
			env := x.newEnv(st)
			env.atEntry = true
			t, err := env.evalBool(c.Expr)
			if err != nil {
				return fmt.Errorf("%s:%d: requires: %v", c.File, c.Line, err)
			}
			st.assume(t)
		}
	}
	x.entry.pc = st.pc
	// vacuity: the precondition must be satisfiable
	x.obls = append(x.obls, &Obligation{Name: x.funcName() + "#cover[requires]", Func: x.funcName(), Kind: "cover", PC: st.pc, Goal: tFalse, Assume: true})
	x.execBlock(st, fn.Blocks[0], nil)
	return nil
}

func (x *Exec) computeOrdinals() {
	x.ordinals = map[ssa.Instruction]int{}
	counts := map[string]int{}
	for _, b := range x.fn.Blocks {
		for _, ins := range b.Instrs {
			k := ""
			switch i := ins.(type) {
			case *ssa.IndexAddr:
				k = "index"
			case *ssa.Index:
				k = "index"
			case *ssa.Lookup:
				if !isMap(i.X.Type()) {
					k = "index"
				}
			case *ssa.Slice:
				k = "slice"
			case *ssa.MakeSlice:
				k = "make"
			case *ssa.TypeAssert:
				if !i.CommaOk {
					k = "assert-type"
				}
			case *ssa.Panic:
				k = "panic"
			case *ssa.BinOp:
				if i.Op == token.QUO || i.Op == token.REM {
					k = "div"
				}
			case *ssa.UnOp:
				if i.Op == token.MUL {
					k = "nil"
				}
			case *ssa.Store:
				k = "nilstore"
			case *ssa.FieldAddr:
				k = "nilfield"
			case ssa.CallInstruction:
				k = "call"
			}
			if k != "" {
				x.ordinals[ins] = counts[k]
				counts[k]++
			}
		}
	}
}

// ---------------------------------------------------------------------
// block execution

func (x *Exec) execBlock(st *State, b *ssa.BasicBlock, from *ssa.BasicBlock) {
	for {
		if st.dead {
			return
		}
		if li, ok := x.loopAt[b.Index]; ok {
			fromInside := from != nil && li.Body[from.Index] && st.inLoop[b.Index]
			if fromInside {
				x.loopBackEdge(st, li)
				return
			}
			x.loopEntry(st, li)
		}
		st.trace = append(st.trace, b.Index)
		if len(st.trace) > 4000 {
			panic(capError{"CAP: path longer than 4000 blocks in " + x.funcName()})
		}
		var next *ssa.BasicBlock
		for _, ins := range b.Instrs {
			switch i := ins.(type) {
			case *ssa.Phi:
				idx := -1
				for k, p := range b.Preds {
					if p == from {
						idx = k
					}
				}
				if idx < 0 {
					panic("phi without matching predecessor")
				}
				st.regs[i] = x.operand(st, i.Edges[idx])
			case *ssa.If:
				c := x.operand(st, i.Cond).one()
				tb, fb := b.Succs[0], b.Succs[1]
				switch c.S {
				case "true":
					next = tb
				case "false":
					next = fb
				default:
					x.paths++
					if x.paths > maxPaths {
						panic(capError{fmt.Sprintf("CAP: more than %d paths in %s", maxPaths, x.funcName())})
					}
					st2 := st.clone()
					st2.assume(c)
					x.leaveLoops(st2, b, tb)
					x.execBlock(st2, tb, b)
					st.assume(mkNot(c))
					next = fb
				}
			case *ssa.Jump:
				next = b.Succs[0]
			case *ssa.Return:
				x.doReturn(st, i)
				return
			case *ssa.Panic:
				if x.nopanic && !x.ctr.AllowExplicitPanic {
					x.oblige(st, "panic", fmt.Sprint(x.ordinals[i]), tFalse, i.Pos(), "explicit panic reachable")
				}
				return
			default:
				x.execInstr(st, ins)
				if st.dead {
					return
				}
			}
		}
		if next == nil {
			return
		}
		x.leaveLoops(st, b, next)
		from, b = b, next
	}
}

func r0pos(_ Term) token.Pos { return token.NoPos }

func (x *Exec) doReturn(st *State, r *ssa.Return) {
	x.retReached++
	st.trace = append(st.trace, -1)
	x.pathEnd(st, "return")
	if x.ctr == nil {
		return
	}
	rets := make([]Value, len(r.Results))
	for i, v := range r.Results {
		rets[i] = x.operand(st, v)
	}
	for k, c := range x.ctr.NoReturn {
		env := x.newEnv(st)
		env.atReturn = true
		env.rets = rets
		t, err := env.evalBool(c.Expr)
		if err != nil {
			panic(fmt.Sprintf("%s:%d: noreturn: %v", c.File, c.Line, err))
		}
		x.oblige(st, "noreturn", fmt.Sprint(k), mkNot(t), r.Pos(), "no return when "+c.Expr)
	}
	for _, fr := range x.ctr.Fresh {
		idx := retIndex(fr, x.ctr)
		if idx < 0 {
			for i, rn := range namedResults(x.fn) {
				if rn == strings.TrimSpace(fr) {
					idx = i
				}
			}
		}
		if idx >= 0 && idx < len(rets) && len(rets[idx].L) > 0 {
			r := rets[idx].L[0]
			x.oblige(st, "fresh", strings.TrimSpace(fr), mkOr(mkEq(r, tZero), mkCmp(">", r, x.entry.top)), r0pos(r), "result is nil or allocated during this call")
		}
	}
	for k, c := range x.ctr.Ensures {
		env := x.newEnv(st)
		env.atReturn = true
		env.rets = rets
		if r != nil && r.Pos().IsValid() {
			env.spos = r.Pos()
		}
		t, err := env.evalBool(c.Expr)
		if err != nil {
			panic(fmt.Sprintf("%s:%d: ensures: %v", c.File, c.Line, err))
		}
		label := c.Label
		if label == "" {
			label = fmt.Sprint(k)
		}
		x.oblige(st, "ensures", label, t, r.Pos(), c.Expr)
	}
}

// ---------------------------------------------------------------------
// loops

func (x *Exec) loopLabel(li *LoopInfo) string { return fmt.Sprintf("loop%d", li.K) }

func (x *Exec) evalInvariants(st *State, li *LoopInfo, kind string) {
	if li.Spec == nil {
		return
	}
	for k, c := range li.Spec.Invariants {
		env := x.newEnv(st)
		env.loop = li
		t, err := env.evalBool(c.Expr)
		if err != nil {
			panic(fmt.Sprintf("%s:%d: invariant: %v", c.File, c.Line, err))
		}
		label := c.Label
		if label == "" {
			label = fmt.Sprint(k)
		}
		x.oblige(st, kind, x.loopLabel(li)+"."+label, t, li.Pos, c.Expr)
	}
}

func (x *Exec) leaveLoops(st *State, b, next *ssa.BasicBlock) {
	if st.dead {
		return
	}
	for _, li := range x.loops {
		if li.Spec != nil && len(li.Spec.Exits) > 0 && li.Body[b.Index] && !li.Body[next.Index] && st.inLoop[li.Header.Index] {
			x.evalExits(st, li)
		}
	}
}

// evalExits: `loop K exit E` - E holds whenever control leaves the loop for the statement behind it (not on
// return or panic inside the loop). Names are resolved at the loop statement.
func (x *Exec) evalExits(st *State, li *LoopInfo) {
	for k, c := range li.Spec.Exits {
		env := x.newEnv(st)
		env.loop = li
		t, err := env.evalBool(c.Expr)
		if err != nil {
			panic(fmt.Sprintf("%s:%d: loop exit: %v", c.File, c.Line, err))
		}
		label := c.Label
		if label == "" {
			label = fmt.Sprint(k)
		}
		x.oblige(st, "loop-exit", x.loopLabel(li)+"."+label, t, li.Pos, c.Expr)
	}
}

func (x *Exec) loopEntry(st *State, li *LoopInfo) {
	x.evalInvariants(st, li, "inv-entry")
	st.loopPre[li.Header.Index] = st.clone()
	x.havocLoop(st, li)
	st.inLoop[li.Header.Index] = true
	x.assumeRangeIndex(st, li)
	if li.Spec == nil {
		x.note(fmt.Sprintf("unannotated loop (havoc, invariant true): %s loop %d %q", x.funcName(), li.K, li.Sig))
		return
	}
	for _, c := range li.Spec.Invariants {
		env := x.newEnv(st)
		env.loop = li
		t, err := env.evalBool(c.Expr)
		if err != nil {
			panic(fmt.Sprintf("%s:%d: invariant: %v", c.File, c.Line, err))
		}
		st.assume(t)
	}
	// remember variant values at the loop head
	for k, c := range li.Spec.Decreases {
		env := x.newEnv(st)
		env.loop = li
		v, err := env.evalString(c.Expr)
		if err != nil {
			panic(fmt.Sprintf("%s:%d: decreases: %v", c.File, c.Line, err))
		}
		st.ghost[fmt.Sprintf("!variant.%d.%d", li.Header.Index, k)] = v
	}
}

func (x *Exec) loopBackEdge(st *State, li *LoopInfo) {
	st.trace = append(st.trace, li.Header.Index, -2)
	x.pathEnd(st, "back edge")
	x.checkHavocSet(st, li)
	x.evalInvariants(st, li, "inv-step")
	if li.Spec != nil {
		for k, c := range li.Spec.Decreases {
			env := x.newEnv(st)
			env.loop = li
			v, err := env.evalString(c.Expr)
			if err != nil {
				panic(fmt.Sprintf("%s:%d: decreases: %v", c.File, c.Line, err))
			}
			old := st.ghost[fmt.Sprintf("!variant.%d.%d", li.Header.Index, k)]
			goal := mkAnd(mkCmp("<", v.one(), old.one()), mkCmp(">=", old.one(), tZero))
			label := c.Label
			if label == "" {
				label = fmt.Sprint(k)
			}
			x.oblige(st, "decreases", x.loopLabel(li)+"."+label, goal, li.Pos, c.Expr)
		}
	}
}

// havocLoop forgets everything the loop body may change.
func (x *Exec) havocLoop(st *State, li *LoopInfo) {
	fn := x.fn
	cellSet := map[int]bool{}
	heapSet := map[string]bool{}
	all := false
	var idxs []int
	for idx := range li.Body {
		idxs = append(idxs, idx)
	}
	sort.Ints(idxs)
	addHeapLeaves := func(kind string, base types.Type, off, n int) {
		leaves := flatten(base)
		for j := off; j < off+n && j < len(leaves); j++ {
			name := heapName(kind, base, leaves[j].Path)
			x.heapInfo[name] = heapMeta{kind, base, leaves[j]}
			heapSet[name] = true
		}
	}
	var markAddr func(a ssa.Value)
	markAddr = func(a ssa.Value) {
		// determine what a store through address a may touch
		switch v := a.(type) {
		case *ssa.Alloc:
			if c, ok := st.cellOf[v]; ok {
				cellSet[c] = true
			}
			if v.Heap {
				el := v.Type().Underlying().(*types.Pointer).Elem()
				addHeapLeaves("H", el, 0, len(flatten(el)))
			}
		case *ssa.FieldAddr:
			// walk to the root, computing the leaf range
			off, n, root, base, ok := x.staticFieldPath(v)
			if !ok {
				all = true
				return
			}
			switch r := root.(type) {
			case *ssa.Alloc:
				if c, ok := st.cellOf[r]; ok {
					cellSet[c] = true
				}
				if r.Heap {
					addHeapLeaves("H", base, off, n)
				}
			case *ssa.IndexAddr:
				if isSlice(r.X.Type()) {
					addHeapLeaves("M", base, off, n)
				} else {
					markAddr(r)
				}
			default:
				addHeapLeaves("H", base, off, n)
			}
		case *ssa.IndexAddr:
			if sl, ok := v.X.Type().Underlying().(*types.Slice); ok {
				addHeapLeaves("M", sl.Elem(), 0, len(flatten(sl.Elem())))
			} else {
				// pointer to array
				pt := v.X.Type().Underlying().(*types.Pointer)
				at := pt.Elem().Underlying().(*types.Array)
				if al, ok := v.X.(*ssa.Alloc); ok {
					if c, ok := st.cellOf[al]; ok {
						cellSet[c] = true
					}
				}
				addHeapLeaves("M", at.Elem(), 0, len(flatten(at.Elem())))
				if fa, ok := v.X.(*ssa.FieldAddr); ok {
					markAddr(fa)
				}
			}
		default:
			// store through an arbitrary pointer value
			pt, ok := a.Type().Underlying().(*types.Pointer)
			if !ok {
				all = true
				return
			}
			el := pt.Elem()
			if at, ok := el.Underlying().(*types.Array); ok {
				addHeapLeaves("M", at.Elem(), 0, len(flatten(at.Elem())))
			} else {
				// a *T may point to an object of its own or to an element of a []T
				addHeapLeaves("H", el, 0, len(flatten(el)))
				addHeapLeaves("M", el, 0, len(flatten(el)))
			}
		}
	}
	ghostSet := map[string]bool{}
	for _, idx := range idxs {
		for _, ins := range fn.Blocks[idx].Instrs {
			switch i := ins.(type) {
			case *ssa.Store:
				markAddr(i.Addr)
			case *ssa.MapUpdate:
				mt := i.Map.Type().Underlying().(*types.Map)
				x.mapDom(st, mt) // registers the arrays and their sorts
				for _, lf := range flatten(mt.Elem()) {
					x.mapVal(st, mt, lf)
				}
				for _, n := range mapHeapNames(mt) {
					heapSet[n] = true
				}
			case *ssa.Next:
				if !i.IsString {
					if rg, ok := i.Iter.(*ssa.Range); ok {
						ghostSet[visitedName(rg)] = true
					}
				}
			case *ssa.Select:
				for _, ev := range x.ctrEvents() {
					if ev.Kind == "recv" {
						for _, a := range ev.Assigns {
							ghostSet[a.Var] = true
						}
					}
				}
			case ssa.CallInstruction:
				if _, isGo := ins.(*ssa.Go); isGo {
					continue
				}
				if _, isDefer := ins.(*ssa.Defer); isDefer {
					continue
				}
				eff := x.callEffects(i.Common())
				if eff.all {
					all = true
				}
				for _, n := range eff.heap {
					heapSet[n] = true
				}
				for _, a := range eff.localArgs {
					markAddr(a)
				}
				for _, ev := range x.ctrEvents() {
					if ev.Kind == "on" && x.eventMatches(ev, i.Common()) {
						for _, a := range ev.Assigns {
							ghostSet[a.Var] = true
						}
					}
				}
			case *ssa.RunDefers:
				all = true
			}
		}
	}
	if li.Spec != nil && li.Spec.HasMod {
		// explicit loop frame replaces the computed heap part
		all = false
		heapSet = map[string]bool{}
		for _, m := range li.Spec.Modifies {
			x.havocLvalue(st, m, x.newEnv(st))
		}
	}
	for g := range st.ghost {
		if strings.HasPrefix(g, "!sticky:") {
			delete(st.ghost, g)
		}
	}
	// iterations may allocate: everything havocked may be newer than the current top
	x.bumpTop(st)
	var cells []int
	for c := range cellSet {
		cells = append(cells, c)
	}
	sort.Ints(cells)
	for _, c := range cells {
		old := st.cells[c]
		nv := x.freshValue(st, fmt.Sprintf("loop%d_cell%d", li.K, c), old.T)
		st.cells[c] = nv
	}
	if all {
		x.havocAllHeap(st) // objects that never escaped this activation are preserved here ...
	}
	{
		// ... but whatever the loop body itself stores to is forgotten in any case
		var names []string
		for n := range heapSet {
			names = append(names, n)
		}
		sort.Strings(names)
		for _, n := range names {
			if _, isMap := x.mapInfo[n]; isMap || strings.HasPrefix(n, "MapD:") || strings.HasPrefix(n, "MapV:") {
				if srt, ok := x.mapInfo[n]; ok {
					st.heap[n] = x.fresh(st, n, srt)
				} else {
					panic(unsupported{"UNSUPPORTED: map array " + n + " modified in a loop before its sort is known"})
				}
				continue
			}
			x.heapHavoc(st, n)
		}
	}
	var gs []string
	for g := range ghostSet {
		gs = append(gs, g)
	}
	sort.Strings(gs)
	for _, g := range gs {
		if old, ok := st.ghost[g]; ok {
			if old.T == nil {
				nv := Value{L: make([]Term, len(old.L))}
				for k := range old.L {
					nv.L[k] = x.fresh(st, "loop_ghost_"+g, old.L[k].Sort)
				}
				st.ghost[g] = nv
			} else {
				st.ghost[g] = x.freshValue(st, "loop_ghost_"+g, old.T)
			}
		}
	}
	// values computed inside the loop body in a previous iteration are not visible anyway (SSA regs
	// are redefined before use), nothing to do for regs.
	snap := &loopSnap{logLen: len(st.writeLog), heap: map[string]Term{}, cells: map[int]Value{}, heapSet: heapSet, cellSet: cellSet, all: all || (li.Spec != nil && li.Spec.HasMod)}
	for k, v := range st.heap {
		snap.heap[k] = v
	}
	for k, v := range st.cells {
		snap.cells[k] = v
	}
	if st.loopSnap == nil {
		st.loopSnap = map[int]*loopSnap{}
	}
	st.loopSnap[li.Header.Index] = snap
}

// checkHavocSet is the engine's own safety net: at a back edge every heap array and local cell that
// differs from its value at the loop head must have been in the set the loop head forgot. A miss would
// make the loop summary unsound, so it is an engine error (exit 2), never a pass.
func (x *Exec) checkHavocSet(st *State, li *LoopInfo) {
	snap := st.loopSnap[li.Header.Index]
	if snap == nil || snap.all {
		return
	}
	for _, n := range st.writeLog[snap.logLen:] {
		if !snap.heapSet[n] {
			panic(unsupported{fmt.Sprintf("UNSOUND-HAVOC: %s loop %d writes %s, which the loop head did not forget", x.funcName(), li.K, n)})
		}
	}
	for c, old := range snap.cells {
		if snap.cellSet[c] {
			continue
		}
		cur, ok := st.cells[c]
		if !ok || len(cur.L) != len(old.L) {
			continue
		}
		for k := range cur.L {
			if cur.L[k].S != old.L[k].S {
				panic(unsupported{fmt.Sprintf("UNSOUND-HAVOC: %s loop %d writes local cell %d, which the loop head did not forget", x.funcName(), li.K, c)})
			}
		}
	}
}

// bumpTop introduces a new allocation top >= the current one (somebody else may have allocated).
func (x *Exec) bumpTop(st *State) {
	nt := x.fresh(st, "top", sInt)
	st.assume(mkCmp(">=", nt, st.top))
	st.top = nt
}

// pathEnd records a feasibility (cover) query for a finished path.
func (x *Exec) pathEnd(st *State, why string) {
	x.obls = append(x.obls, &Obligation{Name: x.funcName() + "#cover[path]", Func: x.funcName(), Kind: "pathcover", PC: st.pc, Goal: tFalse, Assume: true, Trace: append([]int(nil), st.trace...), Note: why})
}

func (x *Exec) ctrEvents() []*Event {
	if x.ctr == nil {
		return nil
	}
	return x.ctr.Events
}

// staticFieldPath resolves a FieldAddr chain (without evaluating) to (leaf offset, count, root value, base type).
func (x *Exec) staticFieldPath(fa *ssa.FieldAddr) (off, n int, root ssa.Value, base types.Type, ok bool) {
	pt := fa.X.Type().Underlying().(*types.Pointer)
	st, _ := pt.Elem().Underlying().(*types.Struct)
	if st == nil {
		return 0, 0, nil, nil, false
	}
	o, cnt := fieldRange(st, fa.Field)
	switch inner := fa.X.(type) {
	case *ssa.FieldAddr:
		o2, _, r, b, ok := x.staticFieldPath(inner)
		if !ok {
			return 0, 0, nil, nil, false
		}
		return o2 + o, cnt, r, b, true
	case *ssa.IndexAddr:
		if sl, isSl := inner.X.Type().Underlying().(*types.Slice); isSl {
			return o, cnt, inner, sl.Elem(), true
		}
		return o, cnt, inner, pt.Elem(), true
	default:
		return o, cnt, fa.X, pt.Elem(), true
	}
}

// ---------------------------------------------------------------------
// operands and constants

func (x *Exec) operand(st *State, v ssa.Value) Value {
	switch c := v.(type) {
	case *ssa.Const:
		return x.constValue(c)
	case *ssa.Global:
		return x.globalPtr(st, c)
	case *ssa.Function:
		return scalar(c.Type(), x.funcID(c.String()))
	case *ssa.Builtin:
		return scalar(types.Typ[types.Int], tZero)
	}
	if val, ok := st.regs[v]; ok {
		return val
	}
	panic(fmt.Sprintf("operand %s (%T) not evaluated in %s", v.Name(), v, x.funcName()))
}

func (x *Exec) funcID(name string) Term {
	sym := quoteSym("func:" + name)
	x.pre.declare(sym, "(declare-fun "+sym+" () Int)\n(assert (> "+sym+" 0))")
	return Term{sym, sInt}
}

func (x *Exec) globalPtr(st *State, g *ssa.Global) Value {
	el := g.Type().Underlying().(*types.Pointer).Elem()
	sym := quoteSym("global:" + g.String())
	x.pre.declare(sym, "(declare-fun "+sym+" () Int)\n(assert (> "+sym+" 0))")
	obj := Term{sym, sInt}
	var p *Ptr
	if at, ok := el.Underlying().(*types.Array); ok {
		p = &Ptr{Kind: pArr, Obj: obj, Base: at.Elem(), Sub: el}
	} else {
		// globals live in a per-global heap keyed by the variable itself so that different
		// globals of one type do not alias: use a distinct object id in the type's heap.
		p = &Ptr{Kind: pHeap, Obj: obj, Base: el, Off: 0, Sub: el}
	}
	return Value{T: g.Type(), L: []Term{obj}, P: p}
}

func (x *Exec) strConst(s string) Term {
	if s == "" {
		return tZero
	}
	id := x.ck.internString(s)
	// length (and, for short strings, the bytes) of a literal are facts of every query
	key := fmt.Sprintf("strfact:%d", id)
	if _, ok := x.pre.seen[key]; !ok {
		var sb strings.Builder
		fmt.Fprintf(&sb, "(assert (= (slen %d) %d))", id, len(s))
		if len(s) <= 32 {
			for i := 0; i < len(s); i++ {
				fmt.Fprintf(&sb, "\n(assert (= (sbyte %d %d) %d))", id, i, s[i])
			}
		}
		x.pre.declare(key, sb.String())
	}
	return mkInt(int64(id))
}

func (x *Exec) constValue(c *ssa.Const) Value {
	t := c.Type()
	if c.Value == nil {
		return zeroValue(t)
	}
	switch u := t.Underlying().(type) {
	case *types.Basic:
		switch {
		case u.Info()&types.IsBoolean != 0:
			return scalar(t, mkBool(constant.BoolVal(c.Value)))
		case u.Info()&types.IsString != 0:
			return scalar(t, x.strConst(constant.StringVal(c.Value)))
		case u.Info()&types.IsInteger != 0:
			bi, ok := constant.Val(constant.ToInt(c.Value)).(*big.Int)
			if !ok {
				i64, _ := constant.Int64Val(constant.ToInt(c.Value))
				return scalar(t, mkInt(i64))
			}
			return scalar(t, mkBig(bi))
		case u.Info()&types.IsFloat != 0:
			f := constant.ToFloat(c.Value)
			switch val := constant.Val(f).(type) {
			case *big.Rat:
				return scalar(t, mkReal(val))
			case *big.Float:
				r, _ := val.Rat(nil)
				return scalar(t, mkReal(r))
			case int64:
				return scalar(t, mkReal(new(big.Rat).SetInt64(val)))
			case *big.Int:
				return scalar(t, mkReal(new(big.Rat).SetInt(val)))
			}
		}
	}
	panic(unsupported{fmt.Sprintf("UNSUPPORTED constant %s of type %s in %s", c, t, x.funcName())})
}

func coerce(v Value, t types.Type) Value {
	leaves := flatten(t)
	if len(leaves) == len(v.L) {
		ok := true
		for i := range leaves {
			if leaves[i].Sort != v.L[i].Sort {
				ok = false
			}
		}
		if ok {
			return Value{T: t, L: v.L, P: v.P}
		}
	}
	if len(leaves) == 1 && len(v.L) == 1 {
		if leaves[0].Sort == sReal && v.L[0].Sort == sInt {
			return scalar(t, app("to_real", sReal, v.L[0]))
		}
	}
	// nil literal to multi-leaf type (slice)
	if len(v.L) == 1 && v.L[0].S == "0" {
		return zeroValue(t)
	}
	panic(fmt.Sprintf("cannot coerce value of type %v (%d leaves) to %v", v.T, len(v.L), t))
}

// assumeRangeIndex adds the fact the compiler guarantees for `for i, v := range s` over a slice, array or
// string: at the loop head the hidden index is -1 (nothing done yet) or an index below the length that was
// taken before the loop. (SSA shape: idx = *rangeindex; next = idx + 1; *rangeindex = next; if next < n.)
func (x *Exec) assumeRangeIndex(st *State, li *LoopInfo) {
	var idxAlloc *ssa.Alloc
	var next ssa.Value
	for _, ins := range li.Header.Instrs {
		if s, ok := ins.(*ssa.Store); ok {
			if a, ok := s.Addr.(*ssa.Alloc); ok && a.Comment == "rangeindex" {
				idxAlloc, next = a, s.Val
			}
		}
	}
	if idxAlloc == nil {
		return
	}
	cell, ok := st.cellOf[idxAlloc]
	if !ok {
		return
	}
	cv, ok := st.cells[cell]
	if !ok || len(cv.L) != 1 {
		return
	}
	for _, ins := range li.Header.Instrs {
		b, ok := ins.(*ssa.BinOp)
		if !ok || b.Op != token.LSS || b.X != next {
			continue
		}
		n, ok := st.regs[b.Y]
		if !ok || len(n.L) != 1 {
			return
		}
		idx := cv.L[0]
		st.assume(mkOr(mkEq(idx, mkInt(-1)), mkAnd(mkCmp("<=", tZero, idx), mkCmp("<", idx, n.L[0]))))
		return
	}
}
