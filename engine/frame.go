package main

import (
	"fmt"
	"go/token"
	"go/types"
	"strings"

	"golang.org/x/tools/go/ssa"
)

// region is one location set named by a modifies clause, evaluated in the entry state.
type region struct {
	kind   string // "H", "M", "map", "ghost"
	base   string // typeKey of the root object type
	lo, hi int    // leaf range [lo,hi)
	obj    Term   // object / backing array / map reference
	text   string
	any    bool // `any T.f`: the field of every object of type T
}

// parseAnyRegion resolves `T.f.g` (T a struct type of pkg or pkgname.T) to the type and leaf range of the field.
func (x *Exec) parseAnyRegion(m string, pkg *ssa.Package) (types.Type, int, int) {
	parts := strings.Split(strings.TrimSpace(m), ".")
	var T types.Type
	rest := parts[1:]
	if pkg != nil {
		if tn, ok := pkg.Pkg.Scope().Lookup(parts[0]).(*types.TypeName); ok {
			T = tn.Type()
		}
	}
	if T == nil && len(parts) >= 2 {
		if tp := x.ck.pkgByName(parts[0]); tp != nil {
			if tn, ok := tp.Scope().Lookup(parts[1]).(*types.TypeName); ok {
				T = tn.Type()
				rest = parts[2:]
			}
		}
	}
	if T == nil {
		panic(fmt.Sprintf("%s: modifies any %s: unknown type", x.funcName(), m))
	}
	lo, cur := 0, T
	for _, f := range rest {
		stt, ok := cur.Underlying().(*types.Struct)
		if !ok {
			panic(fmt.Sprintf("%s: modifies any %s: %v is not a struct", x.funcName(), m, cur))
		}
		found := false
		for i := 0; i < stt.NumFields(); i++ {
			if stt.Field(i).Name() == f {
				off, _ := fieldRange(stt, i)
				lo += off
				cur = stt.Field(i).Type()
				found = true
				break
			}
		}
		if !found {
			panic(fmt.Sprintf("%s: modifies any %s: no field %s", x.funcName(), m, f))
		}
	}
	return T, lo, lo + len(flatten(cur))
}

// frameRegions evaluates the contract's modifies clauses at function entry.
func (x *Exec) frameRegions() []region {
	if x.frameDone {
		return x.frame
	}
	x.frameDone = true
	if x.ctr == nil || !x.ctr.HasMod {
		return nil
	}
	env := x.newEnv(x.entry)
	env.atEntry = true
	for _, m := range x.ctr.Modifies {
		m = strings.TrimSpace(m)
		switch {
		case strings.HasPrefix(m, "global "):
			g := x.ck.findGlobal(strings.TrimSpace(m[7:]), x.fn.Pkg)
			if g == nil {
				panic(fmt.Sprintf("%s: modifies: unknown global %q", x.funcName(), m))
			}
			gp := x.globalPtr(x.entry, g)
			x.frame = append(x.frame, region{"H", typeKey(gp.P.Base), 0, len(flatten(gp.P.Base)), gp.P.Obj, m, false})
		case strings.HasPrefix(m, "mem(") && strings.HasSuffix(m, ")"):
			v, err := env.evalString(m[4 : len(m)-1])
			if err != nil {
				panic(fmt.Sprintf("%s: modifies %s: %v", x.funcName(), m, err))
			}
			sl, ok := v.T.Underlying().(*types.Slice)
			if !ok {
				panic(fmt.Sprintf("%s: modifies %s: not a slice", x.funcName(), m))
			}
			x.frame = append(x.frame, region{"M", typeKey(sl.Elem()), 0, len(flatten(sl.Elem())), v.sliceArr(), m, false})
		case strings.HasPrefix(m, "map(") && strings.HasSuffix(m, ")"):
			v, err := env.evalString(m[4 : len(m)-1])
			if err != nil {
				panic(fmt.Sprintf("%s: modifies %s: %v", x.funcName(), m, err))
			}
			x.frame = append(x.frame, region{"map", typeKey(v.T.Underlying()), 0, 0, v.one(), m, false})
		case strings.HasPrefix(m, "ghost "):
		case strings.HasPrefix(m, "sink "):
			// what sits behind an interface parameter is unknown at entry: any bytes.Buffer / bytes.Reader
			for _, tn := range []string{"bytes.Buffer", "bytes.Reader"} {
				for _, h := range x.anyRegions(tn, x.fn.Pkg) {
					x.frame = append(x.frame, region{kind: "H", base: typeKey(h.base), lo: h.lo, hi: h.hi, text: m, any: true})
					x.frame = append(x.frame, region{kind: "M", base: typeKey(h.base), lo: h.lo, hi: h.hi, text: m, any: true})
				}
			}
		case strings.HasPrefix(m, "any "):
			for _, h := range x.anyRegions(m[4:], x.fn.Pkg) {
				x.frame = append(x.frame, region{kind: "H", base: typeKey(h.base), lo: h.lo, hi: h.hi, text: m, any: true})
				x.frame = append(x.frame, region{kind: "M", base: typeKey(h.base), lo: h.lo, hi: h.hi, text: m, any: true})
			}
		case strings.HasPrefix(m, "*") && x.ifaceParam(env, strings.TrimSpace(m[1:])) != nil:
			// *v for an interface-typed parameter: whatever object the caller boxed into it
			x.frame = append(x.frame, region{kind: "iface", obj: *x.ifaceParam(env, strings.TrimSpace(m[1:])), text: m})
		default:
			p, err := env.evalAddr(m)
			if err != nil {
				panic(fmt.Sprintf("%s: modifies %s: %v", x.funcName(), m, err))
			}
			switch p.Kind {
			case pHeap:
				x.frame = append(x.frame, region{"H", typeKey(p.Base), p.Off, p.Off + len(flatten(p.Sub)), p.Obj, m, false})
			case pElem, pArr:
				x.frame = append(x.frame, region{"M", typeKey(p.Base), p.Off, p.Off + len(flatten(p.Sub)), p.Obj, m, false})
			}
		}
	}
	return x.frame
}

// allowedWrite builds the condition under which a write to (kind, base, leaves [lo,hi), obj) is within the frame.
func (x *Exec) allowedWrite(st *State, kind, base string, lo, hi int, obj Term) Term {
	var cs []Term
	// objects newer than the allocation top at entry were allocated during this activation
	cs = append(cs, mkCmp(">", obj, x.entry.top))
	if kind == "M" {
		// element memory of the nil slice: there are no elements to write
		cs = append(cs, mkEq(obj, tZero))
	}
	for _, r := range x.frameRegions() {
		if r.kind == kind && r.base == base && (kind == "map" || (r.lo <= lo && hi <= r.hi)) {
			if r.any {
				return tTrue
			}
			cs = append(cs, mkEq(obj, r.obj))
		}
	}
	return mkOr(cs...)
}

func (x *Exec) framed() bool { return x.ctr != nil && x.ctr.HasMod }

func (x *Exec) frameStore(st *State, p *Ptr, pos token.Pos, what string) {
	if !x.framed() || p.Kind == pLocal {
		return
	}
	kind := "H"
	if p.Kind == pElem || p.Kind == pArr {
		kind = "M"
	}
	n := len(flatten(p.Sub))
	ok := x.allowedWrite(st, kind, typeKey(p.Base), p.Off, p.Off+n, p.Obj)
	x.frameOrd++
	x.oblige(st, "frame", what, ok, pos, "write within the modifies clause")
}

// frameCall checks that the effects of a callee stay within the caller's frame.
func (x *Exec) frameCall(st *State, ins ssa.Instruction, c *ssa.CallCommon, ctr *FuncContract, args []Value, name string) {
	if !x.framed() {
		return
	}
	label := fmt.Sprintf("call.%s@%d", shortCallee(name), x.ordinals[ins])
	if ctr == nil || (!ctr.Pure && !ctr.Neutral && !ctr.HasMod) {
		x.oblige(st, "frame", label, tFalse, ins.Pos(), "callee without modifies clause may write anywhere")
		return
	}
	if ctr.Pure || (ctr.Neutral && !ctr.HasMod) {
		return
	}
	pnames := x.paramNames(ctr, c)
	for k, m := range ctr.Modifies {
		m = strings.TrimSpace(m)
		env := x.newCalleeEnv(st, ctr, c)
		for i, n := range pnames {
			if i < len(args) && n != "_" && n != "" {
				env.vars[n] = args[i]
			}
		}
		var ok Term
		switch {
		case strings.HasPrefix(m, "global "):
			g := x.ck.findGlobal(strings.TrimSpace(m[7:]), env.pkg)
			gp := x.globalPtr(st, g)
			ok = x.allowedWrite(st, "H", typeKey(gp.P.Base), 0, len(flatten(gp.P.Base)), gp.P.Obj)
		case strings.HasPrefix(m, "mem(") && strings.HasSuffix(m, ")"):
			v, err := env.evalString(m[4 : len(m)-1])
			if err != nil {
				panic(fmt.Sprintf("frame: %v", err))
			}
			sl := v.T.Underlying().(*types.Slice)
			ok = x.allowedWrite(st, "M", typeKey(sl.Elem()), 0, len(flatten(sl.Elem())), v.sliceArr())
		case strings.HasPrefix(m, "map(") && strings.HasSuffix(m, ")"):
			v, err := env.evalString(m[4 : len(m)-1])
			if err != nil {
				panic(fmt.Sprintf("frame: %v", err))
			}
			ok = x.allowedWrite(st, "map", typeKey(v.T.Underlying()), 0, 0, v.one())
		case strings.HasPrefix(m, "ghost "):
			continue
		case strings.HasPrefix(m, "sink ") && x.sinkPointee(env, strings.TrimSpace(m[5:])) != nil:
			p := x.sinkPointee(env, strings.TrimSpace(m[5:]))
			if p.Kind == pLocal {
				continue
			}
			if p.Kind == pHeap && len(flatten(p.Sub)) == 0 {
				continue
			}
			kind := "H"
			if p.Kind == pElem || p.Kind == pArr {
				kind = "M"
			}
			ok = x.allowedWrite(st, kind, typeKey(p.Base), p.Off, p.Off+len(flatten(p.Sub)), p.Obj)
		case strings.HasPrefix(m, "any ") || strings.HasPrefix(m, "sink "):
			homes := []anyHome{}
			if strings.HasPrefix(m, "sink ") {
				homes = append(x.anyRegions("bytes.Buffer", env.pkg), x.anyRegions("bytes.Reader", env.pkg)...)
			} else {
				homes = x.anyRegions(m[4:], env.pkg)
			}
			ok = tTrue
			for _, h := range homes {
				covered := false
				for _, r := range x.frameRegions() {
					if r.any && r.kind == "H" && r.base == typeKey(h.base) && r.lo <= h.lo && h.hi <= r.hi {
						covered = true
					}
				}
				if !covered {
					ok = tFalse
				}
			}
		case strings.HasPrefix(m, "*") && x.ifaceParam(env, strings.TrimSpace(m[1:])) != nil:
			// the callee writes through an interface value of unknown content: fine if it is the very value
			// this function may write through
			it := x.ifaceParam(env, strings.TrimSpace(m[1:]))
			var alts []Term
			for _, r := range x.frameRegions() {
				if r.kind == "iface" {
					alts = append(alts, mkEq(*it, r.obj))
				}
			}
			ok = mkOr(alts...)
		case strings.HasPrefix(m, "*") && x.boxedSlice(env, strings.TrimSpace(m[1:])) != nil:
			// *v where v is an interface value holding a slice: the slice's elements
			bv := x.boxedSlice(env, strings.TrimSpace(m[1:]))
			sl := bv.T.Underlying().(*types.Slice)
			ok = x.allowedWrite(st, "M", typeKey(sl.Elem()), 0, len(flatten(sl.Elem())), bv.sliceArr())
		default:
			p, err := env.evalAddr(m)
			if err != nil {
				panic(fmt.Sprintf("frame: %v", err))
			}
			if p.Kind == pLocal {
				continue
			}
			kind := "H"
			if p.Kind == pElem || p.Kind == pArr {
				kind = "M"
			}
			ok = x.allowedWrite(st, kind, typeKey(p.Base), p.Off, p.Off+len(flatten(p.Sub)), p.Obj)
		}
		x.oblige(st, "frame", fmt.Sprintf("%s.%d", label, k), ok, ins.Pos(), "callee modifies "+m+" within the caller's modifies clause")
	}
}

// anyHome is one place where objects of a type live: heap arrays of a struct type (own objects, slice
// elements) restricted to the leaf range occupied by the embedded value.
type anyHome struct {
	base   types.Type
	lo, hi int
}

// embeddedRanges lists the leaf ranges of S that are occupied by values of type T embedded by value
// (struct fields and fixed arrays of structs are flattened in place).
func embeddedRanges(S, T types.Type, off int, depth int) [][2]int {
	if types.Identical(S, T) {
		return [][2]int{{off, off + len(flatten(S))}}
	}
	if depth > 6 {
		return nil
	}
	var out [][2]int
	if stt, ok := S.Underlying().(*types.Struct); ok {
		o := off
		for i := 0; i < stt.NumFields(); i++ {
			ft := stt.Field(i).Type()
			out = append(out, embeddedRanges(ft, T, o, depth+1)...)
			o += len(flatten(ft))
		}
	}
	return out
}

// anyHomes enumerates every struct type known to the program that holds a T by value (including T itself).
func (ck *Checker) anyHomes(T types.Type) []anyHome {
	key := typeKey(T)
	if h, ok := ck.anyHomeCache[key]; ok {
		return h
	}
	seen := map[*types.Package]bool{}
	var pkgs []*types.Package
	var visit func(p *types.Package)
	visit = func(p *types.Package) {
		if p == nil || seen[p] {
			return
		}
		seen[p] = true
		pkgs = append(pkgs, p)
		for _, q := range p.Imports() {
			visit(q)
		}
	}
	for _, sp := range ck.prog.AllPackages() {
		visit(sp.Pkg)
	}
	var out []anyHome
	for _, p := range pkgs {
		sc := p.Scope()
		for _, n := range sc.Names() {
			tn, ok := sc.Lookup(n).(*types.TypeName)
			if !ok || tn.IsAlias() {
				continue
			}
			S := tn.Type()
			if _, ok := S.Underlying().(*types.Struct); !ok {
				continue
			}
			if named, ok := S.(*types.Named); ok && named.TypeParams().Len() > 0 {
				continue
			}
			for _, r := range embeddedRanges(S, T, 0, 0) {
				out = append(out, anyHome{S, r[0], r[1]})
			}
		}
	}
	if ck.anyHomeCache == nil {
		ck.anyHomeCache = map[string][]anyHome{}
	}
	ck.anyHomeCache[key] = out
	return out
}

// anyRegions resolves `any T[.f...]` to every place such a field lives: in objects of type T and in
// every struct type that embeds a T by value.
func (x *Exec) anyRegions(m string, pkg *ssa.Package) []anyHome {
	T, lo, hi := x.parseAnyRegion(m, pkg)
	var out []anyHome
	for _, h := range x.ck.anyHomes(T) {
		out = append(out, anyHome{h.base, h.lo + lo, h.lo + hi})
	}
	return out
}

// boxedSlice returns the slice held by an interface-typed specification expression, if that is known.
func (x *Exec) boxedSlice(env *Env, expr string) *Value {
	v, err := env.evalString(expr)
	if err != nil || v.T == nil || !isInterface(v.T) || len(v.L) != 1 {
		return nil
	}
	bv, ok := env.st.boxed[v.L[0].S]
	if !ok || !isSlice(bv.T) {
		return nil
	}
	return &bv
}

// ifaceParam returns the interface term of a specification expression that is an interface value with no
// known content (typically an `interface{}` out-parameter).
func (x *Exec) ifaceParam(env *Env, expr string) *Term {
	v, err := env.evalString(expr)
	if err != nil || v.T == nil || !isInterface(v.T) || len(v.L) != 1 {
		return nil
	}
	if _, ok := env.st.boxed[v.L[0].S]; ok {
		return nil
	}
	t := v.L[0]
	return &t
}
