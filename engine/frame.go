package main

import (
	"fmt"
	"go/token"
	"go/types"
	"strings"

	"golang.org/x/tools/go/ssa"
)

// region is one location set named by a modifies clause, evaluated in the entry state.
type region struct {
	kind   string // "H", "M", "map", "ghost"
	base   string // typeKey of the root object type
	lo, hi int    // leaf range [lo,hi)
	obj    Term   // object / backing array / map reference
	text   string
}

// frameRegions evaluates the contract's modifies clauses at function entry.
func (x *Exec) frameRegions() []region {
	if x.frameDone {
		return x.frame
	}
	x.frameDone = true
	if x.ctr == nil || !x.ctr.HasMod {
		return nil
	}
	env := x.newEnv(x.entry)
	env.atEntry = true
	for _, m := range x.ctr.Modifies {
		m = strings.TrimSpace(m)
		switch {
		case strings.HasPrefix(m, "global "):
			g := x.ck.findGlobal(strings.TrimSpace(m[7:]), x.fn.Pkg)
			if g == nil {
				panic(fmt.Sprintf("%s: modifies: unknown global %q", x.funcName(), m))
			}
			gp := x.globalPtr(x.entry, g)
			x.frame = append(x.frame, region{"H", typeKey(gp.P.Base), 0, len(flatten(gp.P.Base)), gp.P.Obj, m})
		case strings.HasPrefix(m, "mem(") && strings.HasSuffix(m, ")"):
			v, err := env.evalString(m[4 : len(m)-1])
			if err != nil {
				panic(fmt.Sprintf("%s: modifies %s: %v", x.funcName(), m, err))
			}
			sl, ok := v.T.Underlying().(*types.Slice)
			if !ok {
				panic(fmt.Sprintf("%s: modifies %s: not a slice", x.funcName(), m))
			}
			x.frame = append(x.frame, region{"M", typeKey(sl.Elem()), 0, len(flatten(sl.Elem())), v.sliceArr(), m})
		case strings.HasPrefix(m, "map(") && strings.HasSuffix(m, ")"):
			v, err := env.evalString(m[4 : len(m)-1])
			if err != nil {
				panic(fmt.Sprintf("%s: modifies %s: %v", x.funcName(), m, err))
			}
			x.frame = append(x.frame, region{"map", typeKey(v.T.Underlying()), 0, 0, v.one(), m})
		case strings.HasPrefix(m, "ghost "):
		default:
			p, err := env.evalAddr(m)
			if err != nil {
				panic(fmt.Sprintf("%s: modifies %s: %v", x.funcName(), m, err))
			}
			switch p.Kind {
			case pHeap:
				x.frame = append(x.frame, region{"H", typeKey(p.Base), p.Off, p.Off + len(flatten(p.Sub)), p.Obj, m})
			case pElem, pArr:
				x.frame = append(x.frame, region{"M", typeKey(p.Base), p.Off, p.Off + len(flatten(p.Sub)), p.Obj, m})
			}
		}
	}
	return x.frame
}

// allowedWrite builds the condition under which a write to (kind, base, leaves [lo,hi), obj) is within the frame.
func (x *Exec) allowedWrite(st *State, kind, base string, lo, hi int, obj Term) Term {
	var cs []Term
	// objects newer than the allocation top at entry were allocated during this activation
	cs = append(cs, mkCmp(">", obj, x.entry.top))
	for _, r := range x.frameRegions() {
		if r.kind == kind && r.base == base && (kind == "map" || (r.lo <= lo && hi <= r.hi)) {
			cs = append(cs, mkEq(obj, r.obj))
		}
	}
	return mkOr(cs...)
}

func (x *Exec) framed() bool { return x.ctr != nil && x.ctr.HasMod }

func (x *Exec) frameStore(st *State, p *Ptr, pos token.Pos, what string) {
	if !x.framed() || p.Kind == pLocal {
		return
	}
	kind := "H"
	if p.Kind == pElem || p.Kind == pArr {
		kind = "M"
	}
	n := len(flatten(p.Sub))
	ok := x.allowedWrite(st, kind, typeKey(p.Base), p.Off, p.Off+n, p.Obj)
	x.frameOrd++
	x.oblige(st, "frame", what, ok, pos, "write within the modifies clause")
}

// frameCall checks that the effects of a callee stay within the caller's frame.
func (x *Exec) frameCall(st *State, ins ssa.Instruction, c *ssa.CallCommon, ctr *FuncContract, args []Value, name string) {
	if !x.framed() {
		return
	}
	label := fmt.Sprintf("call.%s@%d", shortCallee(name), x.ordinals[ins])
	if ctr == nil || (!ctr.Pure && !ctr.Neutral && !ctr.HasMod) {
		x.oblige(st, "frame", label, tFalse, ins.Pos(), "callee without modifies clause may write anywhere")
		return
	}
	if ctr.Pure || ctr.Neutral {
		return
	}
	pnames := x.paramNames(ctr, c)
	for k, m := range ctr.Modifies {
		m = strings.TrimSpace(m)
		env := x.newCalleeEnv(st, ctr, c)
		for i, n := range pnames {
			if i < len(args) && n != "_" && n != "" {
				env.vars[n] = args[i]
			}
		}
		var ok Term
		switch {
		case strings.HasPrefix(m, "global "):
			g := x.ck.findGlobal(strings.TrimSpace(m[7:]), env.pkg)
			gp := x.globalPtr(st, g)
			ok = x.allowedWrite(st, "H", typeKey(gp.P.Base), 0, len(flatten(gp.P.Base)), gp.P.Obj)
		case strings.HasPrefix(m, "mem(") && strings.HasSuffix(m, ")"):
			v, err := env.evalString(m[4 : len(m)-1])
			if err != nil {
				panic(fmt.Sprintf("frame: %v", err))
			}
			sl := v.T.Underlying().(*types.Slice)
			ok = x.allowedWrite(st, "M", typeKey(sl.Elem()), 0, len(flatten(sl.Elem())), v.sliceArr())
		case strings.HasPrefix(m, "map(") && strings.HasSuffix(m, ")"):
			v, err := env.evalString(m[4 : len(m)-1])
			if err != nil {
				panic(fmt.Sprintf("frame: %v", err))
			}
			ok = x.allowedWrite(st, "map", typeKey(v.T.Underlying()), 0, 0, v.one())
		case strings.HasPrefix(m, "ghost "):
			continue
		default:
			p, err := env.evalAddr(m)
			if err != nil {
				panic(fmt.Sprintf("frame: %v", err))
			}
			if p.Kind == pLocal {
				continue
			}
			kind := "H"
			if p.Kind == pElem || p.Kind == pArr {
				kind = "M"
			}
			ok = x.allowedWrite(st, kind, typeKey(p.Base), p.Off, p.Off+len(flatten(p.Sub)), p.Obj)
		}
		x.oblige(st, "frame", fmt.Sprintf("%s.%d", label, k), ok, ins.Pos(), "callee modifies "+m+" within the caller's modifies clause")
	}
}
