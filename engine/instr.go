package main

import (
	"fmt"
	"go/token"
	"go/types"
	"math/big"

	"golang.org/x/tools/go/ssa"
)

func pow2(k int64) *big.Int { return new(big.Int).Lsh(big.NewInt(1), uint(k)) }

// safety emits a run-time-panic obligation in nopanic mode and assumes the condition afterwards.
func (x *Exec) safety(st *State, kind string, ins ssa.Instruction, cond Term, note string) {
	if cond.S == "true" {
		return
	}
	if x.nopanic {
		x.oblige(st, kind, fmt.Sprint(x.ordinals[ins]), cond, ins.Pos(), note)
	}
	st.assume(cond)
	if cond.S == "false" {
		st.dead = true
	}
}

func (x *Exec) execInstr(st *State, ins ssa.Instruction) {
	switch i := ins.(type) {
	case *ssa.Alloc:
		st.regs[i] = x.doAlloc(st, i)
	case *ssa.Store:
		addr := x.operand(st, i.Addr)
		val := x.operand(st, i.Val)
		p := x.deref(addr)
		x.nilCheck(st, ins, "nilstore", addr, p)
		x.frameStore(st, p, ins.Pos(), fmt.Sprintf("store@%d", x.ordinals[ins]))
		if p.Kind != pLocal {
			st.escape(val)
		}
		x.store(st, p, coerce(val, p.Sub))
	case *ssa.UnOp:
		st.regs[i] = x.doUnOp(st, i)
	case *ssa.BinOp:
		st.regs[i] = x.doBinOp(st, i)
	case *ssa.FieldAddr:
		base := x.operand(st, i.X)
		p := x.deref(base)
		x.nilCheck(st, ins, "nilfield", base, p)
		stt := p.Sub.Underlying().(*types.Struct)
		off, _ := fieldRange(stt, i.Field)
		np := &Ptr{Kind: p.Kind, Cell: p.Cell, Obj: p.Obj, Idx: p.Idx, Base: p.Base, Off: p.Off + off, Sub: stt.Field(i.Field).Type(), ArrIdx: p.ArrIdx}
		st.regs[i] = x.ptrValue(st, i.Type(), np)
	case *ssa.Field:
		base := x.operand(st, i.X)
		stt := base.T.Underlying().(*types.Struct)
		off, n := fieldRange(stt, i.Field)
		st.regs[i] = Value{T: stt.Field(i.Field).Type(), L: base.L[off : off+n]}
	case *ssa.IndexAddr:
		st.regs[i] = x.doIndexAddr(st, i)
	case *ssa.Index:
		base := x.operand(st, i.X)
		idx := x.operand(st, i.Index).one()
		if isString(base.T) {
			x.safety(st, "index", ins, mkAnd(mkCmp("<=", tZero, idx), mkCmp("<", idx, app("slen", sInt, base.one()))), "string index in range")
			b := app("sbyte", sInt, base.one(), idx)
			st.assume(mkAnd(mkCmp("<=", tZero, b), mkCmp("<=", b, mkInt(255))))
			st.regs[i] = scalar(i.Type(), b)
			break
		}
		at := base.T.Underlying().(*types.Array)
		x.safety(st, "index", ins, mkAnd(mkCmp("<=", tZero, idx), mkCmp("<", idx, mkInt(at.Len()))), "array index in range")
		v := Value{T: at.Elem(), L: make([]Term, len(base.L))}
		for k := range base.L {
			v.L[k] = mkSelect(base.L[k], idx)
		}
		st.assumeAll(typeFacts(v))
		st.regs[i] = v
	case *ssa.Extract:
		tup := x.operand(st, i.Tuple)
		tp := tup.T.(*types.Tuple)
		off, n := tupleRange(tp, i.Index)
		st.regs[i] = Value{T: tp.At(i.Index).Type(), L: tup.L[off : off+n]}
	case *ssa.Convert:
		st.regs[i] = x.doConvert(st, i)
	case *ssa.ChangeType:
		v := x.operand(st, i.X)
		st.regs[i] = Value{T: i.Type(), L: v.L, P: v.P}
	case *ssa.ChangeInterface:
		v := x.operand(st, i.X)
		st.regs[i] = Value{T: i.Type(), L: v.L}
	case *ssa.MakeInterface:
		st.regs[i] = x.doMakeInterface(st, i)
	case *ssa.TypeAssert:
		st.regs[i] = x.doTypeAssert(st, i)
	case *ssa.MakeSlice:
		st.regs[i] = x.doMakeSlice(st, i)
	case *ssa.MakeMap:
		r := x.allocRef(st, "map")
		mt := i.Type().Underlying().(*types.Map)
		x.mapInitEmpty(st, mt, r)
		st.regs[i] = scalar(i.Type(), r)
	case *ssa.MakeChan:
		// contracts can speak about the capacity: `before call builtin makechan(n): assert n >= 1`
		x.pseudoBefore(st, ins, "builtin makechan", []Value{x.operand(st, i.Size)})
		st.regs[i] = scalar(i.Type(), x.allocRef(st, "chan"))
	case *ssa.MakeClosure:
		r := x.allocRef(st, "closure")
		for _, b := range i.Bindings {
			st.escape(x.operand(st, b))
		}
		st.regs[i] = scalar(i.Type(), r)
		// captured variables may be modified by the closure whenever it runs: remember bindings
		x.ck.closureOf[r.S] = i
	case *ssa.Slice:
		st.regs[i] = x.doSlice(st, i)
	case *ssa.Lookup:
		st.regs[i] = x.doLookup(st, i)
	case *ssa.MapUpdate:
		// visible to contracts as `before call builtin mapupdate(m, k, v): assert ...`
		x.pseudoBefore(st, ins, "builtin mapupdate", []Value{x.operand(st, i.Map), x.operand(st, i.Key), x.operand(st, i.Value)})
		x.doMapUpdate(st, i)
	case *ssa.Range:
		x.doRange(st, i)
	case *ssa.Next:
		st.regs[i] = x.doNext(st, i)
	case *ssa.Select:
		st.regs[i] = x.doSelect(st, i)
	case *ssa.Call:
		st.regs[i] = x.doCall(st, i, i.Common(), nil)
	case *ssa.Defer:
		d := deferred{call: i.Common(), instr: i}
		d.args = x.evalCallArgs(st, i.Common())
		if !i.Common().IsInvoke() {
			if _, ok := i.Common().Value.(*ssa.Function); !ok {
				if _, ok := i.Common().Value.(*ssa.Builtin); !ok {
					d.fnv = x.operand(st, i.Common().Value)
				}
			}
		}
		st.defers = append(st.defers, d)
	case *ssa.RunDefers:
		ds := st.defers
		st.defers = nil
		for k := len(ds) - 1; k >= 0; k-- {
			x.doCall(st, ds[k].instr, ds[k].call, &ds[k])
			if st.dead {
				return
			}
		}
	case *ssa.Go:
		x.note("goroutine started by `go` is verified separately, never interleaved: " + x.funcName())
		// arguments are evaluated; the callee runs concurrently and may modify shared heap at any time,
		// which a sequential contract cannot express.
		x.evalCallArgs(st, i.Common())
	case *ssa.Send:
		x.note("channel send modelled as no-op: " + x.funcName())
		// ... but contracts can count sends: `on call builtin send(ch, v) ret (): sent = sent + 1`
		x.pseudoBefore(st, ins, "builtin send", []Value{x.operand(st, i.Chan), x.operand(st, i.X)})
		x.pseudoOn(st, ins, "builtin send", []Value{x.operand(st, i.Chan), x.operand(st, i.X)})
	case *ssa.DebugRef:
	default:
		panic(unsupported{fmt.Sprintf("UNSUPPORTED instruction %T (%s) in %s", ins, ins, x.funcName())})
	}
}

func (x *Exec) nilCheck(st *State, ins ssa.Instruction, kind string, addr Value, p *Ptr) {
	if p.Kind == pLocal {
		return
	}
	if addr.P != nil && (addr.P.Kind == pElem || addr.P.Off != 0 || len(addr.P.ArrIdx) > 0) {
		return // interior address derived from an already checked base
	}
	if _, isGlobal := x.isGlobalObj(p.Obj); isGlobal {
		return
	}
	x.safety(st, kind, ins, mkNot(mkEq(p.Obj, tZero)), "nil dereference")
}

func (x *Exec) isGlobalObj(t Term) (string, bool) {
	if len(t.S) > 8 && t.S[:8] == "|global:" {
		return t.S, true
	}
	return "", false
}

// allocRef returns a fresh reference strictly newer than everything seen so far.
func (x *Exec) allocRef(st *State, hint string) Term {
	r := x.fresh(st, "new_"+hint, sInt)
	st.assume(mkCmp(">", r, st.top))
	st.top = r
	st.allocs = append(st.allocs, r)
	if st.private == nil {
		st.private = map[string]bool{}
	}
	st.private[r.S] = true
	return r
}

func (x *Exec) doAlloc(st *State, a *ssa.Alloc) Value {
	el := a.Type().Underlying().(*types.Pointer).Elem()
	if at, ok := el.Underlying().(*types.Array); ok {
		// arrays always live in element memory so that they can be sliced
		r := x.allocRef(st, "arr_"+a.Comment)
		x.initWrite = true
		for _, lf := range flatten(at.Elem()) {
			cur := x.heapCurE(st, "M", at.Elem(), lf)
			x.heapSet(st, "M", at.Elem(), lf, mkStore(cur, r, zeroTerm(arrSort(lf.Sort))))
		}
		x.initWrite = false
		p := &Ptr{Kind: pArr, Obj: r, Base: at.Elem(), Sub: el}
		return Value{T: a.Type(), L: []Term{r}, P: p}
	}
	if a.Heap {
		r := x.allocRef(st, a.Comment)
		p := &Ptr{Kind: pHeap, Obj: r, Base: el, Off: 0, Sub: el}
		x.initWrite = true
		x.store(st, p, zeroValue(el))
		x.initWrite = false
		return Value{T: a.Type(), L: []Term{r}, P: p}
	}
	x.ck.cellCtr++
	id := x.ck.cellCtr
	st.cells[id] = zeroValue(el)
	st.cellOf[a] = id
	p := &Ptr{Kind: pLocal, Cell: id, Base: el, Off: 0, Sub: el}
	return x.ptrValue(st, a.Type(), p)
}

func (x *Exec) doUnOp(st *State, u *ssa.UnOp) Value {
	v := x.operand(st, u.X)
	switch u.Op {
	case token.MUL: // load
		p := x.deref(v)
		x.nilCheck(st, u, "nil", v, p)
		res := x.load(st, p)
		if g, ok := u.X.(*ssa.Global); ok && len(res.L) == 1 && x.ck.nonnil[g.Pkg.Pkg.Path()+"."+g.Name()] {
			st.assume(mkNot(mkEq(res.L[0], tZero)))
		}
		if g, ok := u.X.(*ssa.Global); ok && len(res.L) == 1 {
			if c := x.ck.constGlobal(g); c != nil {
				st.assume(mkEq(res.L[0], x.constValue(c).one()))
			}
		}
		return res
	case token.NOT:
		return scalar(u.Type(), mkNot(v.one()))
	case token.SUB:
		if isFloatType(u.Type()) {
			return scalar(u.Type(), app("-", sReal, v.one()))
		}
		return scalar(u.Type(), x.wrapArith(u.Type(), app("-", sInt, v.one()), false))
	case token.XOR:
		if sfx, ok := wrapSuffix(u.Type()); ok {
			if sfx[0] == 's' {
				return scalar(u.Type(), mkArith("-", mkArith("-", tZero, v.one()), tOne))
			}
			_, hi, _ := intRange(u.Type().Underlying().(*types.Basic))
			return scalar(u.Type(), mkArith("-", Term{hi, sInt}, v.one()))
		}
	case token.ARROW:
		x.note("channel receive yields an unconstrained value: " + x.funcName())
		if u.CommaOk {
			return x.freshValue(st, "recv", u.Type())
		}
		return x.freshValue(st, "recv", u.Type())
	}
	panic(unsupported{fmt.Sprintf("UNSUPPORTED unary operator %s in %s", u.Op, x.funcName())})
}

// wrapArith applies two's-complement wrap-around for type t to mathematical result r.
// strong selects the mod form (needed after multiplication / shifts / conversions).
func (x *Exec) wrapArith(t types.Type, r Term, strong bool) Term {
	sfx, ok := wrapSuffix(t)
	if !ok {
		return r
	}
	if v, ok := litVal(r.S); ok {
		b := t.Underlying().(*types.Basic)
		lo, hi, _ := intRange(b)
		l, _ := litVal(lo)
		h, _ := litVal(hi)
		if v.Cmp(l) >= 0 && v.Cmp(h) <= 0 {
			return r
		}
		span := new(big.Int).Add(new(big.Int).Sub(h, l), big.NewInt(1))
		m := new(big.Int).Mod(new(big.Int).Sub(v, l), span)
		return mkBig(m.Add(m, l))
	}
	if strong {
		return app("m"+sfx, sInt, r)
	}
	return app("w"+sfx, sInt, r)
}

func (x *Exec) uf(name string, ret string, args ...Term) Term {
	sym := quoteSym(name)
	sorts := ""
	for k, a := range args {
		if k > 0 {
			sorts += " "
		}
		sorts += a.Sort
	}
	x.pre.declare(sym, "(declare-fun "+sym+" ("+sorts+") "+ret+")")
	return app(sym, ret, args...)
}

func (x *Exec) doBinOp(st *State, b *ssa.BinOp) Value {
	l := x.operand(st, b.X)
	r := x.operand(st, b.Y)
	t := b.Type()
	switch b.Op {
	case token.EQL, token.NEQ:
		eq := x.valuesEqual(st, l, r)
		if b.Op == token.NEQ {
			eq = mkNot(eq)
		}
		return scalar(t, eq)
	case token.LSS, token.LEQ, token.GTR, token.GEQ:
		op := map[token.Token]string{token.LSS: "<", token.LEQ: "<=", token.GTR: ">", token.GEQ: ">="}[b.Op]
		if isString(l.T) {
			c, facts := x.strCmp(l.one(), r.one())
			st.assumeAll(facts)
			return scalar(t, mkCmp(op, c, tZero))
		}
		return scalar(t, mkCmp(op, l.one(), r.one()))
	}
	if isString(t) && b.Op == token.ADD {
		c := app("sconcat", sInt, l.one(), r.one())
		st.assume(mkEq(app("slen", sInt, c), mkArith("+", app("slen", sInt, l.one()), app("slen", sInt, r.one()))))
		st.assume(mkEq(mkEq(c, tZero), mkAnd(mkEq(l.one(), tZero), mkEq(r.one(), tZero))))
		return scalar(t, c)
	}
	if isBoolType(t) {
		switch b.Op {
		case token.AND, token.LAND:
			return scalar(t, mkAnd(l.one(), r.one()))
		case token.OR, token.LOR:
			return scalar(t, mkOr(l.one(), r.one()))
		case token.XOR:
			return scalar(t, mkNot(mkEq(l.one(), r.one())))
		}
	}
	if isFloatType(t) {
		switch b.Op {
		case token.ADD:
			return scalar(t, mkArith("+", l.one(), r.one()))
		case token.SUB:
			return scalar(t, mkArith("-", l.one(), r.one()))
		case token.MUL:
			return scalar(t, mkArith("*", l.one(), r.one()))
		case token.QUO:
			return scalar(t, app("/", sReal, l.one(), r.one()))
		}
	}
	if !isIntType(t) {
		panic(unsupported{fmt.Sprintf("UNSUPPORTED binary operator %s on %s in %s", b.Op, t, x.funcName())})
	}
	a, c := l.one(), r.one()
	sfx, _ := wrapSuffix(t)
	signed := sfx != "" && sfx[0] == 's'
	switch b.Op {
	case token.ADD:
		return scalar(t, x.wrapArith(t, mkArith("+", a, c), false))
	case token.SUB:
		return scalar(t, x.wrapArith(t, mkArith("-", a, c), false))
	case token.MUL:
		return scalar(t, x.wrapArith(t, mkArith("*", a, c), true))
	case token.QUO, token.REM:
		x.safety(st, "div", b, mkNot(mkEq(c, tZero)), "division by zero")
		var q Term
		if !signed {
			q = app("div", sInt, a, c)
		} else {
			negA := mkArith("-", tZero, a)
			negC := mkArith("-", tZero, c)
			q = mkIte(mkCmp(">=", a, tZero),
				mkIte(mkCmp(">", c, tZero), app("div", sInt, a, c), mkArith("-", tZero, app("div", sInt, a, negC))),
				mkIte(mkCmp(">", c, tZero), mkArith("-", tZero, app("div", sInt, negA, c)), app("div", sInt, negA, negC)))
			if cv, ok := litVal(c.S); ok && cv.Sign() > 0 {
				q = mkIte(mkCmp(">=", a, tZero), app("div", sInt, a, c), mkArith("-", tZero, app("div", sInt, negA, c)))
			}
		}
		if b.Op == token.QUO {
			return scalar(t, x.wrapArith(t, q, false))
		}
		return scalar(t, mkArith("-", a, mkArith("*", c, q)))
	case token.SHL:
		if cv, ok := litVal(c.S); ok && cv.IsInt64() && cv.Int64() < 64 {
			return scalar(t, x.wrapArith(t, mkArith("*", a, mkBig(pow2(cv.Int64()))), true))
		}
		if av, ok := litVal(a.S); ok && av.Cmp(big.NewInt(1)) == 0 {
			// 1 << k
			p := x.uf("pow2", sInt, c)
			st.assume(mkCmp(">=", p, tOne))
			// exact values for small exponents
			for k := int64(0); k <= 32; k++ {
				st.assume(mkImplies(mkEq(c, mkInt(k)), mkEq(p, mkBig(pow2(k)))))
			}
			// monotone bounds for the exponents that occur as limits in the code
			for _, k := range []int64{8, 12, 16, 20, 24, 28, 32, 48, 62} {
				st.assume(mkImplies(mkAnd(mkCmp("<=", tZero, c), mkCmp("<=", c, mkInt(k))), mkCmp("<=", p, mkBig(pow2(k)))))
			}
			return scalar(t, x.wrapArith(t, p, true))
		}
		x.note("non-constant shift treated as uninterpreted: " + x.funcName())
		return scalar(t, x.rangedUF(st, t, "shl", a, c))
	case token.SHR:
		if cv, ok := litVal(c.S); ok && cv.IsInt64() && cv.Int64() < 64 {
			return scalar(t, app("div", sInt, a, mkBig(pow2(cv.Int64()))))
		}
		x.note("non-constant shift treated as uninterpreted: " + x.funcName())
		res := x.rangedUF(st, t, "shr", a, c)
		if !signed {
			st.assume(mkCmp("<=", res, a))
		}
		return scalar(t, res)
	case token.AND:
		// x & (2^k - 1) on non-negative x is x mod 2^k
		for _, pr := range [][2]Term{{a, c}, {c, a}} {
			if mv, ok := litVal(pr[1].S); ok && mv.Sign() >= 0 {
				m1 := new(big.Int).Add(mv, big.NewInt(1))
				if m1.BitLen() > 0 && new(big.Int).And(m1, mv).Sign() == 0 { // mv+1 is power of two
					if !signed {
						return scalar(t, app("mod", sInt, pr[0], mkBig(m1)))
					}
					return scalar(t, app("mod", sInt, pr[0], mkBig(m1))) // two's complement: also holds for negatives
				}
				// single-bit or general constant mask: result in [0, mask]
				res := x.uf("bitand", sInt, pr[0], pr[1])
				st.assume(mkAnd(mkCmp("<=", tZero, res), mkCmp("<=", res, pr[1])))
				if mv.BitLen() > 0 && new(big.Int).And(mv, new(big.Int).Sub(mv, big.NewInt(1))).Sign() == 0 {
					// single bit 2^k: result is 0 or mask, equals mask iff floor(x / 2^k) is odd
					st.assume(mkEq(mkEq(res, pr[1]), mkEq(app("mod", sInt, app("div", sInt, pr[0], pr[1]), mkInt(2)), tOne)))
					st.assume(mkOr(mkEq(res, tZero), mkEq(res, pr[1])))
				}
				return scalar(t, res)
			}
		}
		res := x.uf("bitand", sInt, a, c)
		if !signed {
			st.assume(mkAnd(mkCmp("<=", tZero, res), mkCmp("<=", res, a), mkCmp("<=", res, c)))
		}
		x.note("general bitwise AND treated as uninterpreted with range facts: " + x.funcName())
		return scalar(t, res)
	case token.OR:
		// x | 2^k on a non-negative x sets one bit: exact
		if !signed {
			for _, pr := range [][2]Term{{a, c}, {c, a}} {
				if mv, ok := litVal(pr[1].S); ok && mv.Sign() > 0 && new(big.Int).And(mv, new(big.Int).Sub(mv, big.NewInt(1))).Sign() == 0 {
					bitSet := mkEq(app("mod", sInt, app("div", sInt, pr[0], pr[1]), mkInt(2)), tOne)
					return scalar(t, mkIte(bitSet, pr[0], mkArith("+", pr[0], pr[1])))
				}
			}
		}
		res := x.rangedUF(st, t, "bitor", a, c)
		// constant | x where x lies below the constant's lowest set bit: the bits do not overlap, so it is a sum
		for _, pr := range [][2]Term{{a, c}, {c, a}} {
			if mv, ok := litVal(pr[1].S); ok && mv.Sign() > 0 {
				low := new(big.Int).And(mv, new(big.Int).Neg(mv))
				st.assume(mkImplies(mkAnd(mkCmp("<=", tZero, pr[0]), mkCmp("<", pr[0], mkBig(low))), mkEq(res, mkArith("+", pr[0], pr[1]))))
			}
		}
		if !signed {
			st.assume(mkAnd(mkCmp(">=", res, a), mkCmp(">=", res, c), mkCmp("<=", res, mkArith("+", a, c))))
		}
		x.note("bitwise OR treated as uninterpreted with range facts: " + x.funcName())
		return scalar(t, res)
	case token.XOR:
		x.note("bitwise XOR treated as uninterpreted: " + x.funcName())
		return scalar(t, x.rangedUF(st, t, "bitxor", a, c))
	case token.AND_NOT:
		res := x.rangedUF(st, t, "bitandnot", a, c)
		if !signed {
			st.assume(mkCmp("<=", res, a))
		}
		x.note("bitwise AND-NOT treated as uninterpreted with range facts: " + x.funcName())
		return scalar(t, res)
	}
	panic(unsupported{fmt.Sprintf("UNSUPPORTED binary operator %s in %s", b.Op, x.funcName())})
}

func (x *Exec) rangedUF(st *State, t types.Type, name string, args ...Term) Term {
	r := x.uf(name, sInt, args...)
	if b, ok := t.Underlying().(*types.Basic); ok {
		if lo, hi, ok := intRange(b); ok {
			st.assume(mkAnd(mkCmp("<=", Term{lo, sInt}, r), mkCmp("<=", r, Term{hi, sInt})))
		}
	}
	return r
}

// valuesEqual builds Go's == on two values.
func (x *Exec) valuesEqual(st *State, l, r Value) Term {
	if len(l.L) != len(r.L) {
		// comparison with nil of multi-leaf types (slices)
		if isSlice(l.T) && len(r.L) == 1 {
			return mkEq(l.sliceArr(), tZero)
		}
		if isSlice(r.T) && len(l.L) == 1 {
			return mkEq(r.sliceArr(), tZero)
		}
		panic(fmt.Sprintf("valuesEqual: %v vs %v", l.T, r.T))
	}
	if isSlice(l.T) && isSlice(r.T) {
		// only slice == nil is legal Go; one side is the nil constant
		if r.L[0].S == "0" {
			return mkEq(l.sliceArr(), tZero)
		}
		return mkEq(r.sliceArr(), tZero)
	}
	var cs []Term
	for k := range l.L {
		a, b := l.L[k], r.L[k]
		if isArrSort(a.Sort) {
			cs = append(cs, mkEq(a, b)) // extensional over all indices: stronger than Go's [N]T ==, sound for ==>
			continue
		}
		cs = append(cs, mkEq(a, b))
	}
	return mkAnd(cs...)
}

func (x *Exec) doIndexAddr(st *State, i *ssa.IndexAddr) Value {
	base := x.operand(st, i.X)
	idx := x.operand(st, i.Index).one()
	if sl, ok := base.T.Underlying().(*types.Slice); ok {
		x.safety(st, "index", i, mkAnd(mkCmp("<=", tZero, idx), mkCmp("<", idx, base.sliceLen())), "slice index in range")
		p := &Ptr{Kind: pElem, Obj: base.sliceArr(), Idx: mkArith("+", base.sliceOff(), idx), Base: sl.Elem(), Off: 0, Sub: sl.Elem()}
		return x.ptrValue(st, i.Type(), p)
	}
	// pointer to array
	p := x.deref(base)
	at := p.Sub.Underlying().(*types.Array)
	x.safety(st, "index", i, mkAnd(mkCmp("<=", tZero, idx), mkCmp("<", idx, mkInt(at.Len()))), "array index in range")
	if p.Kind == pArr {
		np := &Ptr{Kind: pElem, Obj: p.Obj, Idx: idx, Base: at.Elem(), Off: 0, Sub: at.Elem()}
		return x.ptrValue(st, i.Type(), np)
	}
	np := &Ptr{Kind: p.Kind, Cell: p.Cell, Obj: p.Obj, Idx: p.Idx, Base: p.Base, Off: p.Off, Sub: at.Elem(), ArrIdx: append(append([]Term(nil), p.ArrIdx...), idx)}
	return x.ptrValue(st, i.Type(), np)
}

func (x *Exec) doConvert(st *State, c *ssa.Convert) Value {
	v := x.operand(st, c.X)
	from, to := c.X.Type(), c.Type()
	switch {
	case isIntType(from) && isIntType(to):
		fb := from.Underlying().(*types.Basic)
		tb := to.Underlying().(*types.Basic)
		flo, fhi, ok1 := intRange(fb)
		tlo, thi, ok2 := intRange(tb)
		if ok1 && ok2 {
			fl, _ := litVal(flo)
			fh, _ := litVal(fhi)
			tl, _ := litVal(tlo)
			th, _ := litVal(thi)
			if fl.Cmp(tl) >= 0 && fh.Cmp(th) <= 0 {
				return scalar(to, v.one())
			}
		}
		return scalar(to, x.wrapArith(to, v.one(), true))
	case isIntType(from) && isFloatType(to):
		return scalar(to, app("to_real", sReal, v.one()))
	case isFloatType(from) && isFloatType(to):
		return scalar(to, v.one())
	case isFloatType(from) && isIntType(to):
		x.note("float to integer conversion uses truncation of the real value, no overflow model: " + x.funcName())
		tr := mkIte(mkCmp(">=", v.one(), Term{"0.0", sReal}), app("to_int", sInt, v.one()), mkArith("-", tZero, app("to_int", sInt, app("-", sReal, v.one()))))
		return scalar(to, tr)
	case isString(to) && isSlice(from):
		s := x.fresh(st, "str_of_bytes", sInt)
		st.assume(mkEq(app("slen", sInt, s), v.sliceLen()))
		st.assume(mkEq(mkEq(s, tZero), mkEq(v.sliceLen(), tZero)))
		// contents: sbyte(s,i) == bytes[i]
		if sl := from.Underlying().(*types.Slice); isIntType(sl.Elem()) {
			lf := flatten(sl.Elem())[0]
			mem := x.heapCurE(st, "M", sl.Elem(), lf)
			st.assume(Term{fmt.Sprintf("(forall ((i Int)) (=> (and (<= 0 i) (< i %s)) (= (sbyte %s i) (select (select %s %s) (+ %s i)))))",
				v.sliceLen().S, s.S, mem.S, v.sliceArr().S, v.sliceOff().S), sBool})
		}
		return scalar(to, s)
	case isSlice(to) && isString(from):
		sl := to.Underlying().(*types.Slice)
		r := x.allocRef(st, "bytes_of_str")
		n := app("slen", sInt, v.one())
		if isIntType(sl.Elem()) {
			lf := flatten(sl.Elem())[0]
			cur := x.heapCurE(st, "M", sl.Elem(), lf)
			na := x.fresh(st, "strbytes", arrSort(sInt))
			if b, ok := sl.Elem().Underlying().(*types.Basic); ok && b.Kind() == types.Uint8 {
				st.assume(Term{fmt.Sprintf("(forall ((i Int)) (=> (and (<= 0 i) (< i %s)) (= (select %s i) (sbyte %s i))))", n.S, na.S, v.one().S), sBool})
			}
			x.initWrite = true
			x.heapSet(st, "M", sl.Elem(), lf, mkStore(cur, r, na))
			x.initWrite = false
		}
		// an empty string converts to an empty, non-nil slice
		return mkSliceVal(to, r, tZero, n, n)
	case isString(to) && isIntType(from):
		return scalar(to, x.uf("str_of_rune", sInt, v.one()))
	case isString(to) && isString(from):
		return scalar(to, v.one())
	case isPointer(to) || isPointer(from) || types.Identical(to.Underlying(), types.Typ[types.UnsafePointer]):
		x.note("unsafe pointer conversion treated as identity: " + x.funcName())
		return Value{T: to, L: v.L}
	}
	if len(flatten(to)) == len(v.L) {
		return Value{T: to, L: v.L}
	}
	panic(unsupported{fmt.Sprintf("UNSUPPORTED conversion %s -> %s in %s", from, to, x.funcName())})
}

func (x *Exec) typeID(t types.Type) Term {
	id := x.ck.internType(t)
	return mkInt(int64(id))
}

func (x *Exec) boxFn(t types.Type) (string, []Leaf) {
	leaves := flatten(t)
	name := quoteSym("box:" + typeKey(t))
	sorts := ""
	for k, l := range leaves {
		if k > 0 {
			sorts += " "
		}
		sorts += l.Sort
	}
	x.pre.declare(name, "(declare-fun "+name+" ("+sorts+") Int)")
	for k, l := range leaves {
		un := quoteSym(fmt.Sprintf("unbox:%s:%d", typeKey(t), k))
		x.pre.declare(un, "(declare-fun "+un+" (Int) "+l.Sort+")")
	}
	return name, leaves
}

func (x *Exec) doMakeInterface(st *State, m *ssa.MakeInterface) Value {
	v := x.operand(st, m.X)
	st.escape(v)
	return x.makeIface(st, m.Type(), v, m.X.Type())
}

func (x *Exec) makeIface(st *State, ifaceT types.Type, v Value, dynT types.Type) Value {
	leaves := flatten(dynT)
	var b Term
	if len(leaves) == 0 {
		// empty struct
		name := quoteSym("box:" + typeKey(dynT))
		x.pre.declare(name, "(declare-fun "+name+" () Int)")
		b = Term{name, sInt}
	} else {
		name, _ := x.boxFn(dynT)
		b = app(name, sInt, v.L...)
		for k := range leaves {
			un := quoteSym(fmt.Sprintf("unbox:%s:%d", typeKey(dynT), k))
			st.assume(mkEq(app(un, v.L[k].Sort, b), v.L[k]))
		}
	}
	st.assume(mkCmp(">", b, tZero))
	st.assume(mkEq(app("dyntype", sInt, b), x.typeID(dynT)))
	if st.boxed == nil {
		st.boxed = map[string]Value{}
	}
	st.boxed[b.S] = Value{T: dynT, L: v.L, P: v.P}
	return scalar(ifaceT, b)
}

func (x *Exec) implementsTerm(dt Term, iface types.Type) Term {
	name := quoteSym("implements:" + typeKey(iface))
	x.pre.declare(name, "(declare-fun "+name+" (Int) Bool)")
	return app(name, sBool, dt)
}

func (x *Exec) doTypeAssert(st *State, ta *ssa.TypeAssert) Value {
	v := x.operand(st, ta.X).one()
	at := ta.AssertedType
	var ok Term
	var res Value
	if isInterface(at) {
		ok = mkAnd(mkNot(mkEq(v, tZero)), x.implementsTerm(app("dyntype", sInt, v), at))
		if it := at.Underlying().(*types.Interface); it.NumMethods() == 0 {
			ok = mkNot(mkEq(v, tZero))
		}
		res = scalar(at, v)
	} else {
		ok = mkAnd(mkNot(mkEq(v, tZero)), mkEq(app("dyntype", sInt, v), x.typeID(at)))
		leaves := flatten(at)
		res = Value{T: at, L: make([]Term, len(leaves))}
		x.boxFn(at)
		for k, l := range leaves {
			un := quoteSym(fmt.Sprintf("unbox:%s:%d", typeKey(at), k))
			res.L[k] = app(un, l.Sort, v)
		}
	}
	if !ta.CommaOk {
		x.safety(st, "assert-type", ta, ok, "type assertion holds")
		if !isInterface(at) {
			st.assumeAll(typeFacts(res))
		}
		return res
	}
	// comma-ok: value is zero when !ok
	out := Value{T: ta.Type(), L: nil}
	z := zeroValue(at)
	for k := range res.L {
		out.L = append(out.L, mkIte(ok, res.L[k], z.L[k]))
	}
	out.L = append(out.L, ok)
	if !isInterface(at) {
		for _, f := range typeFacts(res) {
			st.assume(mkImplies(ok, f))
		}
	}
	return out
}

func (x *Exec) doMakeSlice(st *State, m *ssa.MakeSlice) Value {
	ln := x.operand(st, m.Len).one()
	cp := x.operand(st, m.Cap).one()
	sl := m.Type().Underlying().(*types.Slice)
	x.safety(st, "make", m, mkAnd(mkCmp("<=", tZero, ln), mkCmp("<=", ln, cp)), "make: 0 <= len <= cap")
	if x.nopanic {
		x.allocBound(st, m, cp, sl.Elem())
	}
	r := x.allocRef(st, "slice")
	x.initWrite = true
	for _, lf := range flatten(sl.Elem()) {
		cur := x.heapCurE(st, "M", sl.Elem(), lf)
		x.heapSet(st, "M", sl.Elem(), lf, mkStore(cur, r, zeroTerm(arrSort(lf.Sort))))
	}
	x.initWrite = false
	return mkSliceVal(m.Type(), r, tZero, ln, cp)
}

func elemSize(t types.Type) int64 {
	sz := types.SizesFor("gc", "amd64").Sizeof(t)
	if sz < 1 {
		sz = 1
	}
	return sz
}

// allocBound emits the "allocation proportional to input" obligation for a make site.
func (x *Exec) allocBound(st *State, m *ssa.MakeSlice, n Term, elem types.Type) {
	if _, ok := litVal(n.S); ok {
		return
	}
	ord := x.ordinals[m]
	var bound Term
	if x.ctr != nil {
		if e, ok := x.ctr.AllocBound[ord]; ok {
			env := x.newEnv(st)
			v, err := env.evalString(e)
			if err != nil {
				panic(fmt.Sprintf("allocbound %d: %v", ord, err))
			}
			bound = v.one()
		}
	}
	if bound.S == "" {
		// default: 16 * (sum of lengths of slice/string parameters) + 64 KiB
		sum := tZero
		for _, p := range x.fn.Params {
			v := x.entry.regs[p]
			if isSlice(p.Type()) {
				sum = mkArith("+", sum, v.sliceLen())
			} else if isString(p.Type()) {
				sum = mkArith("+", sum, app("slen", sInt, v.one()))
			}
		}
		bound = mkArith("+", mkArith("*", mkInt(16), sum), mkInt(65536))
	}
	bytes := mkArith("*", n, mkInt(elemSize(elem)))
	x.oblige(st, "alloc", fmt.Sprint(ord), mkCmp("<=", bytes, bound), m.Pos(), "allocation bounded by input size")
}

func (x *Exec) doSlice(st *State, s *ssa.Slice) Value {
	base := x.operand(st, s.X)
	var lo, hi, mx Term
	if s.Low != nil {
		lo = x.operand(st, s.Low).one()
	} else {
		lo = tZero
	}
	if isString(base.T) {
		n := app("slen", sInt, base.one())
		if s.High != nil {
			hi = x.operand(st, s.High).one()
		} else {
			hi = n
		}
		x.safety(st, "slice", s, mkAnd(mkCmp("<=", tZero, lo), mkCmp("<=", lo, hi), mkCmp("<=", hi, n)), "string slice bounds")
		r := x.uf("substr", sInt, base.one(), lo, hi)
		st.assume(mkEq(app("slen", sInt, r), mkArith("-", hi, lo)))
		st.assume(mkEq(mkEq(r, tZero), mkEq(hi, lo)))
		st.assume(mkImplies(mkAnd(mkEq(lo, tZero), mkEq(hi, n)), mkEq(r, base.one())))
		return scalar(s.Type(), r)
	}
	var arr, off, ln, cp Term
	if isSlice(base.T) {
		arr, off, ln, cp = base.sliceArr(), base.sliceOff(), base.sliceLen(), base.sliceCap()
	} else {
		p := x.deref(base)
		at := p.Sub.Underlying().(*types.Array)
		if p.Kind != pArr {
			// an array that lives inside another object (a struct field): the slice is a read-only view, a
			// copy of the current contents in element memory. Writing through it, or handing it to a callee
			// that may write, is refused (UNSUPPORTED) because the write would not reach the field.
			x.nilCheck(st, s, "slice", base, p)
			av := x.load(st, p)
			r := x.allocRef(st, "arrayview")
			x.initWrite = true
			for k, lf := range flatten(at.Elem()) {
				cur := x.heapCurE(st, "M", at.Elem(), lf)
				x.heapSet(st, "M", at.Elem(), lf, mkStore(cur, r, av.L[k]))
			}
			x.initWrite = false
			if x.views == nil {
				x.views = map[string]*Ptr{}
			}
			x.views[r.S] = p
			arr, off, ln, cp = r, tZero, mkInt(at.Len()), mkInt(at.Len())
		} else {
			x.nilCheck(st, s, "slice", base, p)
			arr, off, ln, cp = p.Obj, tZero, mkInt(at.Len()), mkInt(at.Len())
		}
	}
	if s.High != nil {
		hi = x.operand(st, s.High).one()
	} else {
		hi = ln
	}
	if s.Max != nil {
		mx = x.operand(st, s.Max).one()
		x.safety(st, "slice", s, mkAnd(mkCmp("<=", tZero, lo), mkCmp("<=", lo, hi), mkCmp("<=", hi, mx), mkCmp("<=", mx, cp)), "slice bounds")
	} else {
		mx = cp
		x.safety(st, "slice", s, mkAnd(mkCmp("<=", tZero, lo), mkCmp("<=", lo, hi), mkCmp("<=", hi, cp)), "slice bounds")
	}
	return mkSliceVal(s.Type(), arr, mkArith("+", off, lo), mkArith("-", hi, lo), mkArith("-", mx, lo))
}

// ---------------------------------------------------------------------
// maps

func mapHeapNames(mt *types.Map) []string {
	var out []string
	out = append(out, "MapD:"+typeKey(mt))
	for _, l := range flatten(mt.Elem()) {
		out = append(out, "MapV:"+typeKey(mt)+":"+l.Path)
	}
	return out
}

func (x *Exec) mapKeySort(mt *types.Map) string {
	ls := flatten(mt.Key())
	if len(ls) != 1 {
		panic(unsupported{"UNSUPPORTED map key type " + mt.Key().String()})
	}
	return ls[0].Sort
}

func (x *Exec) mapArr(st *State, name string, sort string) Term {
	if t, ok := st.heap[name]; ok {
		return t
	}
	suffix := "@0"
	if ep, ok := st.heap["!epoch"]; ok {
		suffix = "@e" + ep.S
	}
	sym := quoteSym(name + suffix)
	x.pre.declare(sym, "(declare-fun "+sym+" () "+sort+")")
	x.mapInfo[name] = sort
	t := Term{sym, sort}
	if suffix != "@0" {
		st.heap[name] = t
	}
	return t
}

func (x *Exec) mapDom(st *State, mt *types.Map) Term {
	return x.mapArr(st, "MapD:"+typeKey(mt), arrSort(arrSortK(x.mapKeySort(mt), sBool)))
}

func (x *Exec) mapVal(st *State, mt *types.Map, lf Leaf) Term {
	return x.mapArr(st, "MapV:"+typeKey(mt)+":"+lf.Path, arrSort(arrSortK(x.mapKeySort(mt), lf.Sort)))
}

func (x *Exec) mapSet(st *State, name string, val Term) {
	f := x.fresh(st, name, val.Sort)
	st.assume(mkEq(f, val))
	st.heap[name] = f
	x.mapInfo[name] = val.Sort
}

func (x *Exec) mapInitEmpty(st *State, mt *types.Map, r Term) {
	ks := x.mapKeySort(mt)
	d := x.mapDom(st, mt)
	x.mapSet(st, "MapD:"+typeKey(mt), mkStore(d, r, constArray(arrSortK(ks, sBool), tFalse)))
	st.assume(mkEq(x.mapLen(st, mt, r), tZero))
}

// mapLen is len(m): a function of the map's current key set (the domain array), so that it changes with every
// update and is forgotten whenever the domain is.
func (x *Exec) mapLen(st *State, mt *types.Map, m Term) Term {
	return x.keySetSize(x.mapKeySort(mt), mkSelect(x.mapDom(st, mt), m))
}

func (x *Exec) mapLookup(st *State, mt *types.Map, m Term, key Term) (Value, Term) {
	d := x.mapDom(st, mt)
	ok := mkAnd(mkNot(mkEq(m, tZero)), mkSelect(mkSelect(d, m), key))
	leaves := flatten(mt.Elem())
	v := Value{T: mt.Elem(), L: make([]Term, len(leaves))}
	z := zeroValue(mt.Elem())
	for k, lf := range leaves {
		v.L[k] = mkIte(ok, mkSelect(mkSelect(x.mapVal(st, mt, lf), m), key), z.L[k])
	}
	return v, ok
}

func (x *Exec) doLookup(st *State, l *ssa.Lookup) Value {
	base := x.operand(st, l.X)
	idx := x.operand(st, l.Index)
	if isString(base.T) {
		i := idx.one()
		x.safety(st, "index", l, mkAnd(mkCmp("<=", tZero, i), mkCmp("<", i, app("slen", sInt, base.one()))), "string index in range")
		b := app("sbyte", sInt, base.one(), i)
		st.assume(mkAnd(mkCmp("<=", tZero, b), mkCmp("<=", b, mkInt(255))))
		return scalar(l.Type(), b)
	}
	mt := base.T.Underlying().(*types.Map)
	v, ok := x.mapLookup(st, mt, base.one(), idx.one())
	raw := Value{T: mt.Elem(), L: v.L}
	for _, f := range typeFacts(raw) {
		st.assume(f)
	}
	x.assumeOld(st, raw)
	if l.CommaOk {
		return Value{T: l.Type(), L: append(append([]Term(nil), v.L...), ok)}
	}
	return v
}

func (x *Exec) doMapUpdate(st *State, u *ssa.MapUpdate) {
	m := x.operand(st, u.Map)
	k := x.operand(st, u.Key).one()
	v := x.operand(st, u.Value)
	st.escape(v)
	mt := m.T.Underlying().(*types.Map)
	x.safety(st, "nilmap", u, mkNot(mkEq(m.one(), tZero)), "assignment to entry in nil map")
	if x.framed() {
		x.oblige(st, "frame", "mapupdate", x.allowedWrite(st, "map", typeKey(mt), 0, 0, m.one()), u.Pos(), "map update within the modifies clause")
	}
	d := x.mapDom(st, mt)
	was := mkSelect(mkSelect(d, m.one()), k)
	lenBefore := x.mapLen(st, mt, m.one())
	x.mapSet(st, "MapD:"+typeKey(mt), mkStore(d, m.one(), mkStore(mkSelect(d, m.one()), k, tTrue)))
	st.assume(mkEq(x.mapLen(st, mt, m.one()), mkIte(was, lenBefore, mkArith("+", lenBefore, tOne))))
	st.assume(mkCmp(">=", lenBefore, tZero))
	v = coerce(v, mt.Elem())
	for j, lf := range flatten(mt.Elem()) {
		cur := x.mapVal(st, mt, lf)
		x.mapSet(st, "MapV:"+typeKey(mt)+":"+lf.Path, mkStore(cur, m.one(), mkStore(mkSelect(cur, m.one()), k, v.L[j])))
	}
}

func visitedName(r *ssa.Range) string { return "!visited." + r.Name() }

func (x *Exec) doRange(st *State, r *ssa.Range) {
	v := x.operand(st, r.X)
	if isString(v.T) {
		st.regs[r] = v
		pos := scalar(types.Typ[types.Int], tZero)
		st.ghost[visitedName(r)] = pos
		return
	}
	mt := v.T.Underlying().(*types.Map)
	st.regs[r] = v
	ks := x.mapKeySort(mt)
	empty := constArray(arrSortK(ks, sBool), tFalse)
	st.ghost[visitedName(r)] = Value{T: nil, L: []Term{empty}}
	st.assume(mkEq(x.keySetSize(ks, empty), tZero))
}

// keySetSize is the number of keys in a key set (the function len() of a map is defined by, see mapLen).
func (x *Exec) keySetSize(ks string, set Term) Term {
	name := quoteSym("maplen:" + ks)
	x.pre.declare(name, "(declare-fun "+name+" ("+arrSortK(ks, sBool)+") Int)")
	return app(name, sInt, set)
}

// fnWritesMaps: does the function under verification insert into or delete from a map of this type? (Then the
// number of iterations of a range over such a map is not tied to its length.)
func (x *Exec) fnWritesMaps(mt *types.Map, at *ssa.BasicBlock) bool {
	var body map[int]bool
	for _, li := range x.loops {
		if li.Header == at {
			body = li.Body
		}
	}
	for _, b := range x.fn.Blocks {
		if body != nil && !body[b.Index] {
			continue // only what the range loop itself does to such maps matters
		}
		for _, ins := range b.Instrs {
			switch i := ins.(type) {
			case *ssa.MapUpdate:
				if types.Identical(i.Map.Type().Underlying(), mt) {
					return true
				}
			case ssa.CallInstruction:
				if bi, ok := i.Common().Value.(*ssa.Builtin); ok && (bi.Name() == "delete" || bi.Name() == "clear") && len(i.Common().Args) > 0 {
					if types.Identical(i.Common().Args[0].Type().Underlying(), mt) {
						return true
					}
				}
			}
		}
	}
	return false
}

func (x *Exec) doNext(st *State, n *ssa.Next) Value {
	rg := n.Iter.(*ssa.Range)
	it := x.operand(st, rg)
	tup := n.Type().(*types.Tuple)
	if n.IsString {
		pos := st.ghost[visitedName(rg)].one()
		sl := app("slen", sInt, it.one())
		ok := mkCmp("<", pos, sl)
		r := x.fresh(st, "rune", sInt)
		w := x.fresh(st, "runew", sInt)
		st.assume(mkAnd(mkCmp("<=", tOne, w), mkCmp("<=", w, mkInt(4)), mkCmp("<=", tZero, r), mkCmp("<=", r, mkInt(0x10ffff))))
		st.assume(mkImplies(ok, mkCmp("<=", mkArith("+", pos, w), sl)))
		st.ghost[visitedName(rg)] = scalar(types.Typ[types.Int], mkIte(ok, mkArith("+", pos, w), pos))
		return Value{T: tup, L: []Term{ok, pos, r}}
	}
	mt := it.T.Underlying().(*types.Map)
	vis := st.ghost[visitedName(rg)].one()
	ok := x.fresh(st, "next_ok", sBool)
	k := x.freshValue(st, "next_k", mt.Key())
	d := mkSelect(x.mapDom(st, mt), it.one())
	val, _ := x.mapLookup(st, mt, it.one(), k.one())
	st.assume(mkImplies(ok, mkAnd(mkNot(mkEq(it.one(), tZero)), mkSelect(d, k.one()), mkNot(mkSelect(vis, k.one())))))
	ks := x.mapKeySort(mt)
	st.assume(mkImplies(mkNot(ok), Term{fmt.Sprintf("(forall ((kk %s)) (=> (and (not (= %s 0)) (select %s kk)) (select %s kk)))", ks, it.one().S, d.S, vis.S), sBool}))
	raw := Value{T: mt.Elem(), L: val.L}
	for _, f := range typeFacts(raw) {
		st.assume(mkImplies(ok, f))
	}
	x.assumeOld(st, raw)
	st.ghost[visitedName(rg)] = Value{L: []Term{mkIte(ok, mkStore(vis, k.one(), tTrue), vis)}}
	// every iteration visits one more key; when the range ends every key was visited once (unless the function
	// itself changes maps of this type, in which case the iteration count is not tied to len())
	st.assume(mkCmp(">=", x.keySetSize(ks, vis), tZero))
	st.assume(mkImplies(ok, mkEq(x.keySetSize(ks, mkStore(vis, k.one(), tTrue)), mkArith("+", x.keySetSize(ks, vis), tOne))))
	if !x.fnWritesMaps(mt, n.Block()) {
		st.assume(mkImplies(mkAnd(mkNot(ok), mkNot(mkEq(it.one(), tZero))), mkEq(x.keySetSize(ks, vis), x.keySetSize(ks, d))))
		st.assume(mkImplies(ok, mkCmp("<", x.keySetSize(ks, vis), x.keySetSize(ks, d))))
	}
	out := Value{T: tup, L: []Term{ok}}
	out.L = append(out.L, k.L...)
	out.L = append(out.L, val.L...)
	return out
}

func (x *Exec) doSelect(st *State, s *ssa.Select) Value {
	tup := s.Type().(*types.Tuple)
	v := x.freshValue(st, "select", tup)
	idx := v.L[0]
	lo := tZero
	if !s.Blocking {
		lo = mkInt(-1)
	}
	st.assume(mkAnd(mkCmp("<=", lo, idx), mkCmp("<", idx, mkInt(int64(len(s.States))))))
	x.note("select/channel operations yield unconstrained values: " + x.funcName())
	// recv events
	for k, sst := range s.States {
		if sst.Dir != types.RecvOnly {
			continue
		}
		for _, ev := range x.ctrEvents() {
			if ev.Kind != "recv" {
				continue
			}
			if !chanMatches(sst.Chan, ev.Pattern) {
				continue
			}
			fired := mkEq(idx, mkInt(int64(k)))
			env := x.newEnv(st)
			for _, a := range ev.Assigns {
				nv, err := env.evalString(a.Expr)
				if err != nil {
					panic(fmt.Sprintf("%s: on recv: %v", x.funcName(), err))
				}
				old, ok := st.ghost[a.Var]
				if !ok {
					panic(fmt.Sprintf("%s: on recv assigns undeclared ghost %s", x.funcName(), a.Var))
				}
				nv = coerce(nv, old.T)
				res := Value{T: old.T, L: make([]Term, len(old.L))}
				for j := range old.L {
					res.L[j] = mkIte(fired, nv.L[j], old.L[j])
				}
				st.ghost[a.Var] = res
			}
		}
	}
	return v
}

// chanMatches reports whether the channel expression is a load of a field / variable with the given name
// (pattern "s.Closed" matches field Closed; "done" matches a local or field named done).
func chanMatches(v ssa.Value, pat string) bool {
	name := pat
	for k := len(pat) - 1; k >= 0; k-- {
		if pat[k] == '.' {
			name = pat[k+1:]
			break
		}
	}
	if u, ok := v.(*ssa.UnOp); ok && u.Op == token.MUL {
		switch a := u.X.(type) {
		case *ssa.FieldAddr:
			st := a.X.Type().Underlying().(*types.Pointer).Elem().Underlying().(*types.Struct)
			return st.Field(a.Field).Name() == name
		case *ssa.Alloc:
			return a.Comment == name
		case *ssa.Global:
			return a.Name() == name
		}
	}
	if c, ok := v.(*ssa.Call); ok {
		// e.g. ctx.Done()
		if c.Common().IsInvoke() {
			return c.Common().Method.Name()+"()" == name
		}
	}
	return false
}

// strCmp is the three-way comparison of two strings (an uninterpreted function) together with the instances of
// the order axioms for this pair: it is zero exactly for equal strings and antisymmetric.
func (x *Exec) strCmp(l, r Term) (Term, []Term) {
	c := x.uf("strcmp", sInt, l, r)
	rc := x.uf("strcmp", sInt, r, l)
	return c, []Term{
		mkEq(mkEq(c, tZero), mkEq(l, r)),
		mkEq(mkCmp("<", c, tZero), mkCmp(">", rc, tZero)),
		mkEq(mkCmp(">", c, tZero), mkCmp("<", rc, tZero)),
	}
}

// pseudoBefore / pseudoOn run the `before call` / `on call` clauses of the contract for an instruction that is not a
// call (make(chan), channel send) under a builtin-like name.
func (x *Exec) pseudoBefore(st *State, ins ssa.Instruction, name string, args []Value) {
	for _, ev := range x.ctrEvents() {
		if ev.Kind != "before" || !patMatch(ev.Pattern, []string{name}) {
			continue
		}
		env := x.newEnv(st)
		env.spos = ins.Pos()
		x.bindEventArgs(env, ev, args, nil)
		for k, cl := range ev.Asserts {
			t, err := env.evalBool(cl.Expr)
			if err != nil {
				panic(fmt.Sprintf("%s:%d: before call: %v", cl.File, cl.Line, err))
			}
			label := cl.Label
			if label == "" {
				label = fmt.Sprintf("%s#%d.%d", ev.Pattern, ev.Ordinal, k)
			}
			x.oblige(st, "before", label, t, ins.Pos(), cl.Expr)
		}
	}
}

func (x *Exec) pseudoOn(st *State, ins ssa.Instruction, name string, args []Value) {
	for _, ev := range x.ctrEvents() {
		if ev.Kind != "on" || !patMatch(ev.Pattern, []string{name}) {
			continue
		}
		env := x.newEnv(st)
		env.spos = ins.Pos()
		x.bindEventArgs(env, ev, args, nil)
		for _, stmt := range ev.Stmts {
			if stmt.IsAssume || stmt.IsAssert {
				continue
			}
			old, ok := st.ghost[stmt.A.Var]
			if !ok {
				panic(fmt.Sprintf("%s: event assigns undeclared ghost %q", x.funcName(), stmt.A.Var))
			}
			v, err := env.evalString(stmt.A.Expr)
			if err != nil {
				panic(fmt.Sprintf("on %s: %v", name, err))
			}
			st.ghost[stmt.A.Var] = coerce(v, old.T)
			env = x.newEnv(st)
			env.spos = ins.Pos()
			x.bindEventArgs(env, ev, args, nil)
		}
	}
}
