package main

import (
	"bufio"
	"fmt"
	"os"
	"path/filepath"
	"regexp"
	"strconv"
	"strings"
)

// Clause is one requires/ensures/invariant/assert expression with an optional label.
type Clause struct {
	Label string
	Expr  string
	Line  int
	File  string
}

type Assign struct {
	Var  string
	Expr string
}

type Event struct {
	Kind     string // "on" (after call), "before" (before call), "recv"
	Pattern  string // callee pattern (full SSA name or suffix), or field name for recv
	Args     []string
	Rets     []string
	Assigns  []Assign
	Asserts  []Clause
	Line     int
	Ordinal  int
	RetsNone bool
	Stmts    []EvStmt // assignments and assertions in written order
}

type EvStmt struct {
	IsAssert bool
	IsAssume bool // `assume e`: behaviour of the external callee stated in the caller's terms (reported as an assumption)
	A        Assign
	C        Clause
}

type GhostDecl struct {
	Name string
	Type string
	Init string
}

type LoopSpec struct {
	K          int
	Sig        string
	Invariants []Clause
	Decreases  []Clause
	Exits      []Clause // obligations on every edge that leaves the loop for the code behind it
	Modifies   []string
	HasMod     bool
}

type FuncContract struct {
	Name       string // as written, relative to package: "(*Server).healthCheck"
	PkgPath    string // import path ("" for externs given with full names)
	File       string
	Line       int
	Extern     bool
	Properties []string
	Requires   []Clause
	Ensures    []Clause
	Modifies   []string
	HasMod     bool
	NoPanic    bool
	AllowExplicitPanic bool // nopanic covers run-time panics only; explicit panic() calls are programming-error guards
	Pure       bool // result is an uninterpreted function of the arguments, no effects
	Neutral    bool // no heap effects, result unconstrained
	Ghosts     []GhostDecl
	Events     []*Event
	Loops      map[int]*LoopSpec
	Params     []string // for externs / invoke contracts: names given to args
	Results    []string
	AllocBound map[int]string
	Fresh      []string // results that are freshly allocated
	Wraps      [][2]string // (wrapper, inner): writes to the wrapper object end up in the inner io.Writer
	Trusted    bool     // body is not verified (explicitly listed as assumption)
	NilReceiver bool    // the method is written to be called on a nil pointer receiver too
	Standalone bool     // verified against its own contract, but callers do not use it (they owe it nothing and learn nothing)
	NoReturn   []Clause // conditions (over entry values) under which the function never returns
	ReadOnly   bool     // neutral and does not write through pointer arguments either
	Sticky     bool     // successive results on the same arguments: once non-zero, stays the same
	DeadEdges  int      // number of control-flow edges accepted as infeasible (defensive code)
}

type SpecFunc struct {
	Name    string
	Params  string // "a int, b bool"
	Ret     string // "" for pred => bool
	Body    string // "" = uninterpreted
	PkgPath string
	File    string
	Line    int
	Rec     bool
	Macro   bool
}

type Lemma struct {
	Name       string
	Params     string
	Properties []string
	Requires   []Clause
	Ensures    []Clause
	PkgPath    string
	File       string
	Line       int
}

type SpecFile struct {
	Path      string
	PkgPath   string
	Funcs     []*FuncContract
	SpecFuncs []*SpecFunc
	Lemmas    []*Lemma
	NonNilGlobals []string
	FieldRanges   [][4]string // type (pkgpath.Name), field path, lo, hi: assumed value range of a counter field
}

var reLabel = regexp.MustCompile(`^@([A-Za-z0-9_\-\.]+)\s+`)

func parseClause(rest string, file string, line int) Clause {
	c := Clause{File: file, Line: line}
	if m := reLabel.FindStringSubmatch(rest); m != nil {
		c.Label = m[1]
		rest = rest[len(m[0]):]
	}
	c.Expr = strings.TrimSpace(rest)
	return c
}

// readSpecLines returns logical "//@" lines (continuations joined) with line numbers.
func readSpecLines(path string, raw bool) ([]string, []int, error) {
	f, err := os.Open(path)
	if err != nil {
		return nil, nil, err
	}
	defer f.Close()
	var lines []string
	var nums []int
	sc := bufio.NewScanner(f)
	sc.Buffer(make([]byte, 1<<20), 1<<20)
	n := 0
	cont := false
	for sc.Scan() {
		n++
		t := sc.Text()
		var body string
		if raw {
			tt := strings.TrimSpace(t)
			if strings.HasPrefix(tt, "#") || tt == "" {
				cont = false
				continue
			}
			body = t
		} else {
			tt := strings.TrimSpace(t)
			if !strings.HasPrefix(tt, "//@") {
				cont = false
				continue
			}
			body = tt[3:]
		}
		// strip trailing comment " // ..."
		if i := strings.Index(body, " // "); i >= 0 {
			body = body[:i]
		}
		body = strings.TrimRight(body, " \t")
		isCont := strings.HasSuffix(body, "\\")
		if isCont {
			body = strings.TrimSuffix(body, "\\")
		}
		if cont && len(lines) > 0 {
			lines[len(lines)-1] += " " + strings.TrimSpace(body)
		} else {
			if strings.TrimSpace(body) == "" {
				cont = false
				continue
			}
			lines = append(lines, body)
			nums = append(nums, n)
		}
		cont = isCont
	}
	return lines, nums, sc.Err()
}

func splitTopLevel(s string, sep byte) []string {
	var out []string
	depth := 0
	inStr := false
	start := 0
	for i := 0; i < len(s); i++ {
		c := s[i]
		if inStr {
			if c == '\\' {
				i++
			} else if c == '"' {
				inStr = false
			}
			continue
		}
		switch c {
		case '"':
			inStr = true
		case '(', '[', '{':
			depth++
		case ')', ']', '}':
			depth--
		default:
			if c == sep && depth == 0 {
				out = append(out, strings.TrimSpace(s[start:i]))
				start = i + 1
			}
		}
	}
	out = append(out, strings.TrimSpace(s[start:]))
	return out
}

// parseSig parses `name(a, b) ret (x, y): tail` forms used by events.
func parseCallPattern(s string) (pat string, args []string, rest string, err error) {
	// the pattern may itself contain parentheses: (*os.File).WriteAt(_, b)
	// find the last top-level "(...)" group before " ret" or ":".
	// Strategy: find the colon that ends the header at depth 0.
	depth := 0
	hdrEnd := -1
	for i := 0; i < len(s); i++ {
		switch s[i] {
		case '(':
			depth++
		case ')':
			depth--
		case ':':
			if depth == 0 {
				hdrEnd = i
			}
		}
		if hdrEnd >= 0 {
			break
		}
	}
	if hdrEnd < 0 {
		return "", nil, "", fmt.Errorf("missing ':' in event %q", s)
	}
	hdr := strings.TrimSpace(s[:hdrEnd])
	rest = strings.TrimSpace(s[hdrEnd+1:])
	// split " ret "
	retPart := ""
	if i := strings.LastIndex(hdr, " ret "); i >= 0 {
		retPart = strings.TrimSpace(hdr[i+5:])
		hdr = strings.TrimSpace(hdr[:i])
	}
	// args: last parenthesised group
	if !strings.HasSuffix(hdr, ")") {
		return "", nil, "", fmt.Errorf("event header %q lacks argument list", hdr)
	}
	depth = 0
	open := -1
	for i := len(hdr) - 1; i >= 0; i-- {
		if hdr[i] == ')' {
			depth++
		} else if hdr[i] == '(' {
			depth--
			if depth == 0 {
				open = i
				break
			}
		}
	}
	pat = strings.TrimSpace(hdr[:open])
	argstr := strings.TrimSpace(hdr[open+1 : len(hdr)-1])
	if argstr != "" {
		args = splitTopLevel(argstr, ',')
	}
	if retPart != "" {
		rest = "\x00" + retPart + "\x00" + rest
	}
	return pat, args, rest, nil
}

func parseAssigns(s string) ([]Assign, error) {
	var out []Assign
	for _, part := range splitTopLevel(s, ';') {
		if part == "" {
			continue
		}
		// find first '=' that is not part of ==, <=, >=, !=
		idx := -1
		for i := 0; i < len(part); i++ {
			if part[i] == '=' {
				if i+1 < len(part) && part[i+1] == '=' {
					i++
					continue
				}
				if i > 0 && (part[i-1] == '<' || part[i-1] == '>' || part[i-1] == '!' || part[i-1] == '=') {
					continue
				}
				idx = i
				break
			}
		}
		if idx < 0 {
			return nil, fmt.Errorf("bad ghost assignment %q", part)
		}
		out = append(out, Assign{strings.TrimSpace(part[:idx]), strings.TrimSpace(part[idx+1:])})
	}
	return out, nil
}

func parseSpecFile(path string, pkgPath string, raw bool) (*SpecFile, error) {
	lines, nums, err := readSpecLines(path, raw)
	if err != nil {
		return nil, err
	}
	sf := &SpecFile{Path: path, PkgPath: pkgPath}
	var cur *FuncContract
	var curLemma *Lemma
	evOrd := map[string]int{}
	fail := func(i int, format string, a ...any) error {
		return fmt.Errorf("%s:%d: %s", path, nums[i], fmt.Sprintf(format, a...))
	}
	for i, ln := range lines {
		indented := strings.HasPrefix(ln, "  ") || strings.HasPrefix(ln, "\t") || strings.HasPrefix(ln, "   ")
		t := strings.TrimSpace(ln)
		word, rest := t, ""
		if j := strings.IndexAny(t, " \t"); j >= 0 {
			word, rest = t[:j], strings.TrimSpace(t[j+1:])
		}
		if !indented {
			switch word {
			case "func", "extern":
				cur = &FuncContract{Name: rest, PkgPath: pkgPath, File: path, Line: nums[i], Extern: word == "extern", Loops: map[int]*LoopSpec{}, AllocBound: map[int]string{}}
				if word == "extern" {
					// optional param names: extern name(a, b) ret (x, y)
					nm := rest
					if k := strings.LastIndex(nm, " ret "); k >= 0 {
						r := strings.TrimSpace(nm[k+5:])
						r = strings.TrimSuffix(strings.TrimPrefix(r, "("), ")")
						for _, x := range splitTopLevel(r, ',') {
							cur.Results = append(cur.Results, x)
						}
						nm = strings.TrimSpace(nm[:k])
					}
					if strings.HasSuffix(nm, ")") {
						depth := 0
						open := -1
						for q := len(nm) - 1; q >= 0; q-- {
							if nm[q] == ')' {
								depth++
							} else if nm[q] == '(' {
								depth--
								if depth == 0 {
									open = q
									break
								}
							}
						}
						// only treat as arg list if what precedes is non-empty and the group is not the receiver
						if open > 0 {
							argstr := strings.TrimSpace(nm[open+1 : len(nm)-1])
							if argstr != "" {
								cur.Params = splitTopLevel(argstr, ',')
							}
							nm = strings.TrimSpace(nm[:open])
						}
					}
					cur.Name = nm
					cur.PkgPath = ""
				}
				curLemma = nil
				evOrd = map[string]int{}
				sf.Funcs = append(sf.Funcs, cur)
				continue
			case "spec":
				// spec func name(params) ret = body
				r := strings.TrimSpace(strings.TrimPrefix(rest, "func"))
				spf, err := parseSpecFunc(r, false)
				if err != nil {
					return nil, fail(i, "%v", err)
				}
				spf.PkgPath, spf.File, spf.Line = pkgPath, path, nums[i]
				sf.SpecFuncs = append(sf.SpecFuncs, spf)
				cur, curLemma = nil, nil
				continue
			case "macro":
				spf, err := parseSpecFunc(rest, false)
				if err != nil {
					return nil, fail(i, "%v", err)
				}
				spf.Macro = true
				spf.PkgPath, spf.File, spf.Line = pkgPath, path, nums[i]
				sf.SpecFuncs = append(sf.SpecFuncs, spf)
				cur, curLemma = nil, nil
				continue
			case "pred":
				spf, err := parseSpecFunc(rest, true)
				if err != nil {
					return nil, fail(i, "%v", err)
				}
				spf.PkgPath, spf.File, spf.Line = pkgPath, path, nums[i]
				sf.SpecFuncs = append(sf.SpecFuncs, spf)
				cur, curLemma = nil, nil
				continue
			case "lemma":
				open := strings.Index(rest, "(")
				cl := strings.LastIndex(rest, ")")
				if open < 0 || cl < open {
					return nil, fail(i, "bad lemma header")
				}
				curLemma = &Lemma{Name: strings.TrimSpace(rest[:open]), Params: rest[open+1 : cl], PkgPath: pkgPath, File: path, Line: nums[i]}
				sf.Lemmas = append(sf.Lemmas, curLemma)
				cur = nil
				continue
			case "package":
				continue
			case "nonnil":
				sf.NonNilGlobals = append(sf.NonNilGlobals, strings.Fields(rest)...)
				continue
			case "fieldrange":
				fs := strings.Fields(rest)
				if len(fs) != 4 {
					return nil, fail(i, "fieldrange takes a type, a field, a lower and an upper bound")
				}
				sf.FieldRanges = append(sf.FieldRanges, [4]string{fs[0], fs[1], fs[2], fs[3]})
				continue
			default:
				return nil, fail(i, "unknown top-level directive %q", word)
			}
		}
		if curLemma != nil {
			switch word {
			case "property":
				curLemma.Properties = append(curLemma.Properties, strings.Fields(rest)...)
			case "requires":
				curLemma.Requires = append(curLemma.Requires, parseClause(rest, path, nums[i]))
			case "ensures":
				curLemma.Ensures = append(curLemma.Ensures, parseClause(rest, path, nums[i]))
			default:
				return nil, fail(i, "unknown lemma clause %q", word)
			}
			continue
		}
		if cur == nil {
			return nil, fail(i, "clause outside of a func block: %s", t)
		}
		switch word {
		case "property":
			cur.Properties = append(cur.Properties, strings.Fields(rest)...)
		case "requires":
			cur.Requires = append(cur.Requires, parseClause(rest, path, nums[i]))
		case "ensures":
			cur.Ensures = append(cur.Ensures, parseClause(rest, path, nums[i]))
		case "modifies":
			cur.HasMod = true
			if rest != "nothing" {
				cur.Modifies = append(cur.Modifies, splitTopLevel(rest, ',')...)
			}
		case "nopanic":
			cur.NoPanic = true
			if strings.Contains(rest, "implicit") {
				cur.AllowExplicitPanic = true
			}
		case "pure":
			cur.Pure = true
		case "neutral":
			cur.Neutral = true
		case "trusted":
			cur.Trusted = true
		case "standalone":
			cur.Standalone = true
		case "nilreceiver":
			cur.NilReceiver = true
		case "noreturn":
			r := strings.TrimSpace(rest)
			if strings.HasPrefix(r, "when ") {
				r = strings.TrimSpace(r[5:])
			} else if r == "" {
				r = "true"
			}
			cur.NoReturn = append(cur.NoReturn, parseClause(r, path, nums[i]))
		case "readonly":
			cur.ReadOnly = true
			cur.Neutral = true
		case "sticky":
			cur.Sticky = true
			cur.Neutral = true
		case "deadedges":
			k, err := strconv.Atoi(strings.TrimSpace(rest))
			if err != nil {
				return nil, fail(i, "deadedges needs a number")
			}
			cur.DeadEdges = k
		case "fresh":
			cur.Fresh = append(cur.Fresh, splitTopLevel(rest, ',')...)
		case "wraps":
			fs := strings.Fields(rest)
			if len(fs) != 2 {
				return nil, fail(i, "wraps takes a wrapper and an inner writer")
			}
			cur.Wraps = append(cur.Wraps, [2]string{fs[0], fs[1]})
		case "ghost":
			// ghost name type = init
			parts := strings.SplitN(rest, "=", 2)
			hd := strings.Fields(strings.TrimSpace(parts[0]))
			if len(hd) < 2 {
				return nil, fail(i, "bad ghost declaration")
			}
			g := GhostDecl{Name: hd[0], Type: strings.Join(hd[1:], " ")}
			if len(parts) == 2 {
				g.Init = strings.TrimSpace(parts[1])
			}
			cur.Ghosts = append(cur.Ghosts, g)
		case "on", "before":
			kind := word
			sub, r2 := rest, ""
			if j := strings.IndexAny(rest, " \t"); j >= 0 {
				sub, r2 = rest[:j], strings.TrimSpace(rest[j+1:])
			}
			ev := &Event{Kind: kind, Line: nums[i]}
			switch sub {
			case "call":
				pat, args, tail, err := parseCallPattern(r2)
				if err != nil {
					return nil, fail(i, "%v", err)
				}
				ev.Pattern, ev.Args = pat, args
				if strings.HasPrefix(tail, "\x00") {
					ps := strings.SplitN(tail[1:], "\x00", 2)
					r := strings.TrimSuffix(strings.TrimPrefix(strings.TrimSpace(ps[0]), "("), ")")
					ev.Rets = splitTopLevel(r, ',')
					tail = strings.TrimSpace(ps[1])
				}
				if kind == "before" {
					for _, part := range splitTopLevel(tail, ';') {
						if !strings.HasPrefix(part, "assert") {
							return nil, fail(i, "before call expects 'assert <expr>'")
						}
						ev.Asserts = append(ev.Asserts, parseClause(strings.TrimSpace(strings.TrimPrefix(part, "assert")), path, nums[i]))
					}
				} else {
					for _, part := range splitTopLevel(tail, ';') {
						if strings.HasPrefix(part, "assert ") {
							cl := parseClause(strings.TrimSpace(strings.TrimPrefix(part, "assert")), path, nums[i])
							ev.Asserts = append(ev.Asserts, cl)
							ev.Stmts = append(ev.Stmts, EvStmt{IsAssert: true, C: cl})
						} else if strings.HasPrefix(part, "assume ") {
							cl := parseClause(strings.TrimSpace(strings.TrimPrefix(part, "assume")), path, nums[i])
							ev.Stmts = append(ev.Stmts, EvStmt{IsAssume: true, C: cl})
						} else if part != "" {
							as, err := parseAssigns(part)
							if err != nil {
								return nil, fail(i, "%v", err)
							}
							ev.Assigns = append(ev.Assigns, as...)
							for _, a := range as {
								ev.Stmts = append(ev.Stmts, EvStmt{A: a})
							}
						}
					}
				}
			case "recv":
				ev.Kind = "recv"
				j := strings.Index(r2, ":")
				if j < 0 {
					return nil, fail(i, "on recv needs ':'")
				}
				ev.Pattern = strings.TrimSpace(r2[:j])
				as, err := parseAssigns(strings.TrimSpace(r2[j+1:]))
				if err != nil {
					return nil, fail(i, "%v", err)
				}
				ev.Assigns = as
			default:
				return nil, fail(i, "unknown event kind %q", sub)
			}
			key := ev.Kind + "@" + ev.Pattern
			ev.Ordinal = evOrd[key]
			evOrd[key]++
			cur.Events = append(cur.Events, ev)
		case "loop":
			// loop K [sig "..."] invariant E | decreases E | modifies ...
			fs := strings.SplitN(rest, " ", 2)
			k, err := strconv.Atoi(fs[0])
			if err != nil || len(fs) < 2 {
				return nil, fail(i, "bad loop clause")
			}
			ls := cur.Loops[k]
			if ls == nil {
				ls = &LoopSpec{K: k}
				cur.Loops[k] = ls
			}
			r2 := strings.TrimSpace(fs[1])
			if strings.HasPrefix(r2, "sig ") {
				r2 = strings.TrimSpace(r2[4:])
				if !strings.HasPrefix(r2, "\"") {
					return nil, fail(i, "loop sig must be quoted")
				}
				end := strings.Index(r2[1:], "\"")
				if end < 0 {
					return nil, fail(i, "unterminated loop sig")
				}
				ls.Sig = r2[1 : 1+end]
				r2 = strings.TrimSpace(r2[end+2:])
			}
			if r2 == "" {
				break
			}
			w2, r3 := r2, ""
			if j := strings.IndexAny(r2, " \t"); j >= 0 {
				w2, r3 = r2[:j], strings.TrimSpace(r2[j+1:])
			}
			switch w2 {
			case "invariant":
				ls.Invariants = append(ls.Invariants, parseClause(r3, path, nums[i]))
			case "decreases":
				ls.Decreases = append(ls.Decreases, parseClause(r3, path, nums[i]))
			case "exit":
				ls.Exits = append(ls.Exits, parseClause(r3, path, nums[i]))
			case "modifies":
				ls.HasMod = true
				if r3 != "nothing" {
					ls.Modifies = append(ls.Modifies, splitTopLevel(r3, ',')...)
				}
			default:
				return nil, fail(i, "unknown loop clause %q", w2)
			}
		case "allocbound":
			fs := strings.SplitN(rest, " ", 2)
			k, err := strconv.Atoi(fs[0])
			if err != nil || len(fs) < 2 {
				return nil, fail(i, "bad allocbound clause")
			}
			cur.AllocBound[k] = strings.TrimSpace(fs[1])
		default:
			return nil, fail(i, "unknown clause %q", word)
		}
	}
	return sf, nil
}

func parseSpecFunc(r string, pred bool) (*SpecFunc, error) {
	rec := false
	if strings.HasPrefix(r, "rec ") {
		rec = true
		r = strings.TrimSpace(r[4:])
	}
	open := strings.Index(r, "(")
	if open < 0 {
		return nil, fmt.Errorf("bad spec func %q", r)
	}
	depth := 0
	cl := -1
	for i := open; i < len(r); i++ {
		if r[i] == '(' {
			depth++
		} else if r[i] == ')' {
			depth--
			if depth == 0 {
				cl = i
				break
			}
		}
	}
	if cl < 0 {
		return nil, fmt.Errorf("bad spec func %q", r)
	}
	sf := &SpecFunc{Name: strings.TrimSpace(r[:open]), Params: r[open+1 : cl], Rec: rec}
	tail := strings.TrimSpace(r[cl+1:])
	if pred {
		sf.Ret = "bool"
		if strings.HasPrefix(tail, "=") {
			sf.Body = strings.TrimSpace(tail[1:])
		}
		return sf, nil
	}
	if j := strings.Index(tail, "="); j >= 0 && !strings.HasPrefix(tail[j:], "==") {
		sf.Ret = strings.TrimSpace(tail[:j])
		sf.Body = strings.TrimSpace(tail[j+1:])
	} else {
		sf.Ret = tail
	}
	if sf.Ret == "" {
		return nil, fmt.Errorf("spec func %s lacks a result type", sf.Name)
	}
	return sf, nil
}

// findContractFiles scans the repository for zz_contracts_verif.go files.
func findContractFiles(repo string) ([]string, error) {
	var out []string
	err := filepath.Walk(repo, func(p string, info os.FileInfo, err error) error {
		if err != nil {
			return nil
		}
		if info.IsDir() {
			b := filepath.Base(p)
			if b == ".git" || b == "functest" || b == "node_modules" {
				return filepath.SkipDir
			}
			return nil
		}
		if filepath.Base(p) == "zz_contracts_verif.go" {
			out = append(out, p)
		}
		return nil
	})
	return out, err
}

// rewriteImplies turns `a ==> b` and `a <==> b` into implies(a,b)/iff(a,b) so go/parser accepts the text.
func rewriteImplies(s string) string {
	// process parenthesised groups recursively
	var sb strings.Builder
	i := 0
	for i < len(s) {
		c := s[i]
		if c == '"' {
			j := i + 1
			for j < len(s) && s[j] != '"' {
				if s[j] == '\\' {
					j++
				}
				j++
			}
			sb.WriteString(s[i:min(j+1, len(s))])
			i = j + 1
			continue
		}
		if c == '(' || c == '[' {
			closeCh := byte(')')
			if c == '[' {
				closeCh = ']'
			}
			depth := 0
			j := i
			for ; j < len(s); j++ {
				if s[j] == '"' {
					j++
					for j < len(s) && s[j] != '"' {
						if s[j] == '\\' {
							j++
						}
						j++
					}
					continue
				}
				if s[j] == c {
					depth++
				} else if s[j] == closeCh {
					depth--
					if depth == 0 {
						break
					}
				}
			}
			if j >= len(s) {
				sb.WriteString(s[i:])
				break
			}
			inner := s[i+1 : j]
			parts := splitTopLevel(inner, ',')
			for k, p := range parts {
				parts[k] = rewriteImplies(p)
			}
			sb.WriteByte(c)
			sb.WriteString(strings.Join(parts, ", "))
			sb.WriteByte(closeCh)
			i = j + 1
			continue
		}
		sb.WriteByte(c)
		i++
	}
	flat := sb.String()
	// now split at top-level <==> then ==>
	if parts := splitTopOp(flat, "<==>"); len(parts) > 1 {
		res := rewriteImplies(parts[len(parts)-1])
		for k := len(parts) - 2; k >= 0; k-- {
			res = "iff(" + rewriteImplies(parts[k]) + ", " + res + ")"
		}
		return res
	}
	if parts := splitTopOp(flat, "==>"); len(parts) > 1 {
		res := parts[len(parts)-1]
		for k := len(parts) - 2; k >= 0; k-- {
			res = "implies(" + parts[k] + ", " + res + ")"
		}
		return res
	}
	return flat
}

func splitTopOp(s, op string) []string {
	var out []string
	depth := 0
	start := 0
	for i := 0; i < len(s); i++ {
		c := s[i]
		if c == '"' {
			i++
			for i < len(s) && s[i] != '"' {
				if s[i] == '\\' {
					i++
				}
				i++
			}
			continue
		}
		if c == '(' || c == '[' || c == '{' {
			depth++
		} else if c == ')' || c == ']' || c == '}' {
			depth--
		} else if depth == 0 && strings.HasPrefix(s[i:], op) {
			if op == "==>" && i > 0 && s[i-1] == '<' {
				continue
			}
			out = append(out, strings.TrimSpace(s[start:i]))
			start = i + len(op)
			i += len(op) - 1
		}
	}
	out = append(out, strings.TrimSpace(s[start:]))
	return out
}
