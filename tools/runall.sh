#!/bin/sh
# run every claimed check once (quick tier) and print one line per property; exit 1 if any is not clean
cd "$(dirname "$0")/.." || exit 2
bad=0
for p in $(python3 -c "import json;print(' '.join(c['property_id'] for c in json.load(open('MANIFEST.json'))['checks']))"); do
  tmp=$(mktemp -d); out=$(RELIC_OUT=$tmp ./bin/relicvc check "$p" 2>&1); rc=$?; rm -rf "$tmp"
  echo "$out" | grep "^$p \[" | sed 's/; load.*//'
  if [ $rc -ne 0 ]; then bad=1; echo "$out" | grep -v "^NOTE" | grep "FAILED\|VACUOUS\|UNBOUND\|UNSOUND\|CAP\|error" | cut -c1-260 | head -5; fi
done
exit $bad
