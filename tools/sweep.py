#!/usr/bin/env python3
"""Zero-annotation no-panic sweep (exploration aid, not a registered check).

usage: sweep.py <pkgdir> [<pkgdir> ...]     e.g. sweep.py lib/cabfile lib/comdoc

Copies /repo to a scratch directory outside /repo and /verif, gives every function of the named packages
that has no contract yet the thin contract `property SWEEP / nopanic implicit`, runs the verifier on the
copy and prints the safety obligations that do not discharge. Every hit is a candidate: either a missing
precondition/loop invariant (needs a contract) or a run-time panic reachable from the input (needs a
replay on the real code before it is called a defect). Nothing is written to /repo or /verif.
"""
import os, sys, subprocess, tempfile, shutil, collections

VERIF = os.path.dirname(os.path.dirname(os.path.abspath(__file__)))
REPO = os.environ.get("RELIC_REPO", "/repo")
ENV = dict(os.environ, GOFLAGS="-mod=mod", GOPROXY="off", GOSUMDB="off", GOTOOLCHAIN="local")

def main():
    pkgs = [a.strip("/") for a in sys.argv[1:] if not a.startswith("-")]
    tmp = tempfile.mkdtemp(prefix="relic-sweep-")
    try:
        tree = os.path.join(tmp, "repo")
        subprocess.run(["rsync", "-a", "--exclude", ".git", REPO + "/", tree + "/"], check=True)
        env = dict(ENV, RELIC_REPO=tree, RELIC_OUT=os.path.join(tmp, "out"))
        r = subprocess.run([os.path.join(VERIF, "bin", "relicvc"), "names"] + ["./" + p for p in pkgs],
                           capture_output=True, text=True, env=env, cwd=VERIF)
        if r.returncode != 0:
            sys.exit(r.stdout + r.stderr)
        by_pkg = collections.defaultdict(list)
        for line in r.stdout.splitlines():
            path, rel, has = line.split("\t")
            if has == "false" and "$" not in rel:
                by_pkg[path].append(rel)
        mod = "github.com/sassoftware/relic/v8/"
        n = 0
        for path, rels in by_pkg.items():
            d = os.path.join(tree, path[len(mod):])
            pkgname = None
            for f in os.listdir(d):
                if f.endswith(".go") and not f.endswith("_test.go"):
                    for l in open(os.path.join(d, f)):
                        if l.startswith("package "):
                            pkgname = l.split()[1]; break
                if pkgname: break
            cf = os.path.join(d, "zz_contracts_verif.go")
            fresh = not os.path.exists(cf)
            with open(cf, "a") as out:
                if fresh:
                    out.write("//go:build verif\n\npackage %s\n\n" % pkgname)
                else:
                    out.write("\n")
                for rel in rels:
                    out.write("//@ func %s\n//@   property SWEEP\n//@   nopanic implicit\n//@\n" % rel)
                    n += 1
        print("sweep: %d functions without contract in %s" % (n, " ".join(pkgs)))
        r = subprocess.run([os.path.join(VERIF, "bin", "relicvc"), "check", "SWEEP"], capture_output=True, text=True, env=env, cwd=VERIF)
        hits = collections.defaultdict(list)
        other = []
        for l in (r.stdout + r.stderr).splitlines():
            if l.startswith("FAILED obligation"):
                name = l.split()[2]
                fn, _, ob = name.partition("#")
                hits[fn].append(ob + "  " + l.split(" at ", 1)[-1][:110])
            elif l.startswith(("UNSUPPORTED", "engine error", "UNBOUND", "UNSOUND", "VACUOUS", "SWEEP [")) or "UNSUPPORTED" in l:
                other.append(l[:260])
        for fn in sorted(hits):
            print(fn)
            for h in hits[fn]:
                print("    " + h)
        for l in other:
            print(l)
    finally:
        shutil.rmtree(tmp, ignore_errors=True)

main()
