#!/usr/bin/env python3
"""mkmutant.py <Cxx> <name> <file-relative-to-/repo> <old> <new> [expect-substring]
Creates /verif/selftest/mutants/<Cxx>/<name>.patch from a single textual replacement, without
leaving any change in /repo."""
import sys, os, subprocess
prop, name, rel, old, new = sys.argv[1:6]
expect = sys.argv[6] if len(sys.argv) > 6 else ""
p = os.path.join("/repo", rel)
s = open(p).read()
if s.count(old) != 1:
    sys.exit("pattern occurs %d times in %s" % (s.count(old), rel))
open(p, "w").write(s.replace(old, new))
try:
    d = subprocess.run(["git", "-C", "/repo", "diff", "--", rel], capture_output=True, text=True).stdout
finally:
    open(p, "w").write(s)
os.makedirs("/verif/selftest/mutants/" + prop, exist_ok=True)
with open("/verif/selftest/mutants/%s/%s.patch" % (prop, name), "w") as f:
    if expect:
        f.write("# expect: %s\n" % expect)
    f.write(d)
print("ok", name)
