#!/usr/bin/env python3
"""mkmutant.py <Cxx> <name> <file-relative-to-/repo> <old> <new> [expect-substring]
Creates /verif/selftest/mutants/<Cxx>/<name>.patch from a single textual replacement, without
leaving any change in /repo."""
import sys, os, subprocess
prop, name, rel, old, new = sys.argv[1:6]
expect = sys.argv[6] if len(sys.argv) > 6 else ""
p = os.path.join("/repo", rel)
s = open(p).read()
if s.count(old) != 1:
    sys.exit("pattern occurs %d times in %s" % (s.count(old), rel))
open(p, "w").write(s.replace(old, new))
try:
    d = subprocess.run(["git", "-C", "/repo", "diff", "--", rel], capture_output=True, text=True).stdout
    # a mutant that does not compile is no mutant (the check would answer exit 2, cannot decide)
    env = dict(os.environ, GOFLAGS="-mod=mod", GOPROXY="off", GOSUMDB="off", GOTOOLCHAIN="local")
    b = subprocess.run(["go", "build", "./" + os.path.dirname(rel)], cwd="/repo", capture_output=True, text=True, env=env)
finally:
    open(p, "w").write(s)
if b.returncode != 0:
    sys.exit("mutant does not compile:\n" + b.stdout + b.stderr)
os.makedirs("/verif/selftest/mutants/" + prop, exist_ok=True)
with open("/verif/selftest/mutants/%s/%s.patch" % (prop, name), "w") as f:
    if expect:
        f.write("# expect: %s\n" % expect)
    f.write(d)
print("ok", name)
