#!/usr/bin/env python3
"""Must-fail corpus: apply each deliberate property-breaking patch to a scratch copy of the
current /repo tree (outside /repo and /verif), run the property's check there, and require
exit status 1 with the expected obligation reported. The scratch copy is removed afterwards.

usage: selftest.py [Cxx ...] [-j N] [--seeded]
"""
import os, sys, subprocess, tempfile, shutil, glob, json, concurrent.futures, time

VERIF = os.path.dirname(os.path.dirname(os.path.abspath(__file__)))
REPO = os.environ.get("RELIC_REPO", "/repo")
ENV = dict(os.environ, GOFLAGS="-mod=mod", GOPROXY="off", GOSUMDB="off", GOTOOLCHAIN="local")

def run_one(prop, patch, expect):
    tmp = tempfile.mkdtemp(prefix="relic-scratch-")
    t0 = time.time()
    try:
        tree = os.path.join(tmp, "repo")
        subprocess.run(["rsync", "-a", "--exclude", ".git", REPO + "/", tree + "/"], check=True)
        r = subprocess.run(["patch", "-p1", "-s", "-d", tree, "-i", patch], capture_output=True, text=True)
        if r.returncode != 0:
            return (prop, patch, "PATCH-DOES-NOT-APPLY", r.stdout + r.stderr, 0)
        env = dict(ENV, RELIC_REPO=tree, RELIC_OUT=os.path.join(tmp, "out"))
        r = subprocess.run([os.path.join(VERIF, "bin", "relicvc"), "check", prop], capture_output=True, text=True, env=env, cwd=VERIF)
        out = r.stdout + r.stderr
        ok = r.returncode == 1 and "VIOLATION property=" + prop in out
        if ok and expect:
            ok = any(("FAILED obligation" in l and expect in l) for l in out.splitlines())
        return (prop, patch, "CAUGHT" if ok else "MISSED(exit %d)" % r.returncode, out, time.time() - t0)
    finally:
        shutil.rmtree(tmp, ignore_errors=True)

def main():
    args = [a for a in sys.argv[1:] if not a.startswith("-")]
    jobs = 4
    if "-j" in sys.argv:
        jobs = int(sys.argv[sys.argv.index("-j") + 1]); args = [a for a in args if a != str(jobs)]
    seeded = "--seeded" in sys.argv
    harmless = "--harmless" in sys.argv  # edits that keep the property: the check must stay silent (exit 0)
    verbose = "-v" in sys.argv
    match = ""
    if "--match" in sys.argv:
        match = sys.argv[sys.argv.index("--match") + 1]; args = [a for a in args if a != match]
    sample = 0
    if "--sample" in sys.argv:
        sample = int(sys.argv[sys.argv.index("--sample") + 1]); args = [a for a in args if a != str(sample)]
    work = []
    if seeded:
        for meta in sorted(glob.glob(os.path.join(VERIF, "seeded", "*", "meta.json"))):
            m = json.load(open(meta))
            prop = m["property"]
            if args and prop not in args: continue
            if match and match not in os.path.basename(os.path.dirname(meta)): continue
            work.append((prop, os.path.join(os.path.dirname(meta), "patch.diff"), m.get("expect_obligation", "")))
    else:
        for patch in sorted(glob.glob(os.path.join(VERIF, "selftest", "harmless" if harmless else "mutants", "*", "*.patch"))):
            prop = os.path.basename(os.path.dirname(patch))
            if args and prop not in args: continue
            if match and match not in os.path.basename(patch): continue
            expect = ""
            for line in open(patch):
                if line.startswith("# expect:"):
                    expect = line.split(":", 1)[1].strip()
            work.append((prop, patch, expect))
    if sample and len(work) > sample:
        # deterministic sample (VERIF_SEED): used by the thorough tier, which re-validates the check's own
        # detection power on a few must-fail patches after the property itself was decided
        import random
        random.Random(int(os.environ.get("VERIF_SEED", "1") or 1)).shuffle(work)
        work = sorted(work[:sample])
    bad = 0
    # a mutant only counts as caught if the unchanged tree passes the same check
    for prop in sorted(set(w[0] for w in work)):
        if "--nobaseline" in sys.argv: break
        env = dict(ENV, RELIC_REPO=REPO, RELIC_OUT=tempfile.mkdtemp(prefix="relic-base-"))
        r = subprocess.run([os.path.join(VERIF, "bin", "relicvc"), "check", prop], capture_output=True, text=True, env=env, cwd=VERIF)
        shutil.rmtree(env["RELIC_OUT"], ignore_errors=True)
        if r.returncode != 0:
            print("BASELINE %s does not pass on the unchanged tree (exit %d): nothing below can be trusted" % (prop, r.returncode))
            print("    " + "\n    ".join((r.stdout + r.stderr).strip().splitlines()[-5:]))
            bad += 1
    with concurrent.futures.ThreadPoolExecutor(max_workers=jobs) as ex:
        for prop, patch, verdict, out, dt in ex.map(lambda w: run_one(*w), work):
            if harmless:
                verdict = "SILENT" if verdict == "MISSED(exit 0)" else ("ALARM" if verdict == "CAUGHT" else verdict.replace("MISSED", "UNDECIDED"))
                if verdict == "UNDECIDED(exit 2)" and open(patch).readline().startswith("# undecided") and "VIOLATION property=" not in out:
                    verdict = "SILENT"  # documented: cannot decide (exit 2), never an accusation
            print("%-8s %-60s %s (%.1fs)" % (prop, os.path.relpath(patch, VERIF), verdict, dt))
            if verdict not in ("CAUGHT", "SILENT"):
                bad += 1
                if verbose or True:
                    print("    " + "\n    ".join(out.strip().splitlines()[-8:]))
            elif verbose:
                print("    " + "\n    ".join(l for l in out.splitlines() if l.startswith("FAILED")))
    print("selftest: %d mutants, %d not caught" % (len(work), bad))
    sys.exit(1 if bad else 0)

main()
