#!/usr/bin/env python3
"""Import and confirm seeded changes produced by independent sub-agents.

usage: confirm_seed.py <worktree>/_seed/<i> <Cxx> <name>
Copies patch.diff, the demonstration and meta.json to /verif/seeded/<Cxx>-<name>/ and confirms, in a
scratch copy of /repo (removed afterwards): the patch applies, `go build ./...` succeeds, the existing
suite passes, the demonstration FAILS with the patch and PASSES without it. The verdict and the
commands are recorded in meta.json ("confirmation").
"""
import os, sys, json, shutil, subprocess, tempfile, glob

ENV = dict(os.environ, GOFLAGS="-mod=mod", GOPROXY="off", GOSUMDB="off", GOTOOLCHAIN="local")
def sh(cmd, cwd):
    r = subprocess.run(cmd, shell=True, cwd=cwd, env=ENV, capture_output=True, text=True)
    return r.returncode, (r.stdout + r.stderr)

def main():
    src, prop, name = sys.argv[1:4]
    dst = os.path.join("/verif/seeded", "%s-%s" % (prop, name))
    os.makedirs(dst, exist_ok=True)
    for f in os.listdir(src):
        shutil.copy(os.path.join(src, f), os.path.join(dst, f))
    meta = json.load(open(os.path.join(dst, "meta.json")))
    meta["property"] = prop
    pkgdir = meta.get("demo_pkg_dir", "").strip("/")
    demo = [f for f in os.listdir(dst) if f.endswith("_test.go")]
    tmp = tempfile.mkdtemp(prefix="relic-seedconfirm-")
    conf = {}
    try:
        tree = os.path.join(tmp, "repo")
        subprocess.run(["rsync", "-a", "--exclude", ".git", "/repo/", tree + "/"], check=True)
        rc, out = sh("patch -p1 -s < %s" % os.path.join(dst, "patch.diff"), tree)
        conf["patch_applies_to_current_repo"] = rc == 0
        if rc != 0:
            conf["error"] = out[-2000:]
        else:
            rc, out = sh("go build ./...", tree); conf["builds"] = rc == 0
            rc, out = sh("go test -vet=off -count=1 ./... 2>&1 | grep -v 'no test files'", tree)
            conf["suite_passes_with_patch"] = ("FAIL" not in out)
            for d in demo:
                shutil.copy(os.path.join(dst, d), os.path.join(tree, pkgdir, "zz_seed_" + d))
            run = "go test -vet=off -count=1 -timeout 120s ./%s/ -run 'Seed|Replay|%s'" % (pkgdir, meta.get("demo_test_regex", "Test"))
            if meta.get("demo_run"):
                run = meta["demo_run"]
                if "-timeout" not in run: run = run.replace("go test", "go test -timeout 120s")
            rc, out = sh(run, tree); conf["demo_fails_with_patch"] = rc != 0 and "FAIL" in out
            conf["demo_output_with_patch"] = out[-1500:]
            rc2, out2 = sh("patch -p1 -R -s < %s" % os.path.join(dst, "patch.diff"), tree)
            rc, out = sh(run, tree); conf["demo_passes_without_patch"] = rc == 0
            if rc != 0: conf["demo_output_without_patch"] = out[-1500:]
            conf["commands"] = ["patch -p1 < patch.diff", "go build ./...", "go test -vet=off -count=1 ./...", run]
    finally:
        shutil.rmtree(tmp, ignore_errors=True)
    ok = all(conf.get(k) for k in ["patch_applies_to_current_repo", "builds", "suite_passes_with_patch", "demo_fails_with_patch", "demo_passes_without_patch"])
    conf["confirmed"] = ok
    meta["confirmation"] = conf
    json.dump(meta, open(os.path.join(dst, "meta.json"), "w"), indent=1)
    print(prop, name, "CONFIRMED" if ok else "NOT CONFIRMED", {k: v for k, v in conf.items() if isinstance(v, bool)})

main()
