package signdeb

// Replay driver for the Debian signature body parser (C11): a digest line needs its four fields.
import (
	"strings"
	"testing"
)

func TestReplayCheckSigMalformedDigestLine(t *testing.T) {
	body := "Version: 4\nFiles:\n\t" + strings.Repeat("x", 80) + "\n"
	defer func() {
		if r := recover(); r != nil {
			t.Errorf("digest line without separators: checkSig panicked: %v", r)
		}
	}()
	if err := checkSig("builder", strings.NewReader(body), map[string]string{"a": "b"}); err == nil {
		t.Errorf("digest line without separators: accepted")
	}
}
