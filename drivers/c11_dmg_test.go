package dmg

// Replay driver for the disk image trailer reader (C11): the signature length is a signed field of the file.
import (
	"bytes"
	"encoding/binary"
	"os"
	"path/filepath"
	"testing"
)

func TestReplayOpenNegativeSignatureLength(t *testing.T) {
	var b bytes.Buffer
	binary.Write(&b, binary.BigEndian, udifResourceFile{Signature: udifSignature, SignatureOffset: 0, SignatureLength: -1})
	p := filepath.Join(t.TempDir(), "x.dmg")
	if err := os.WriteFile(p, b.Bytes(), 0o600); err != nil {
		t.Fatal(err)
	}
	f, err := os.Open(p)
	if err != nil {
		t.Fatal(err)
	}
	defer f.Close()
	defer func() {
		if r := recover(); r != nil {
			t.Errorf("negative signature length: Open panicked: %v", r)
		}
	}()
	if _, err := Open(f); err == nil {
		t.Errorf("negative signature length: accepted")
	}
}
