package signxap

// Replay driver for the XAP trailer parser obligations (C11): the trailer at the end of the file being
// signed or verified names the size of the signature block in front of it.
import (
	"bytes"
	"encoding/binary"
	"runtime"
	"testing"
)

func trailer(size uint32) []byte {
	var b bytes.Buffer
	binary.Write(&b, binary.LittleEndian, xapTrailer{Magic: trailerMagic, TrailerSize: size})
	return b.Bytes()
}

func TestReplayXapTrailerNoPanicBoundedAllocation(t *testing.T) {
	for name, cd := range map[string][]byte{
		"directory shorter than a trailer":        {1, 2, 3},
		"trailer claims more than the directory": append(make([]byte, 22), trailer(1<<20)...),
	} {
		func() {
			defer func() {
				if r := recover(); r != nil {
					t.Errorf("%s: removeSignature panicked: %v", name, r)
				}
			}()
			out := removeSignature(cd)
			if len(out) > len(cd) {
				t.Errorf("%s: removeSignature grew the directory", name)
			}
		}()
	}
	// a 26-byte file whose trailer claims a 256 MiB signature
	var f bytes.Buffer
	binary.Write(&f, binary.LittleEndian, xapHeader{SignatureSize: 1 << 28})
	f.Write(make([]byte, 8))
	f.Write(trailer(1<<28 + 8))
	data := f.Bytes()
	var before, after runtime.MemStats
	runtime.ReadMemStats(&before)
	func() {
		defer func() {
			if r := recover(); r != nil {
				t.Errorf("Verify on a short file panicked: %v", r)
			}
		}()
		_, _ = Verify(bytes.NewReader(data), int64(len(data)), true)
	}()
	runtime.ReadMemStats(&after)
	if grown := after.TotalAlloc - before.TotalAlloc; grown > 16<<20 {
		t.Errorf("Verify allocated %d bytes while reading a %d-byte file", grown, len(data))
	}
}
