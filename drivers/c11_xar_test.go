package xar

// Replay driver for the xar reader (C11): the sizes of the signature blobs come from the XML table of
// contents of the archive being read.
import (
	"bytes"
	"compress/zlib"
	"crypto/sha1"
	"encoding/binary"
	"fmt"
	"runtime"
	"testing"
)

func xarWith(sigElement string) []byte {
	toc := `<?xml version="1.0" encoding="UTF-8"?><xar><toc><checksum style="sha1"><offset>0</offset><size>20</size></checksum>` + sigElement + `</toc></xar>`
	var z bytes.Buffer
	zw := zlib.NewWriter(&z)
	zw.Write([]byte(toc))
	zw.Close()
	var b bytes.Buffer
	binary.Write(&b, binary.BigEndian, fileHeader{Magic: xarMagic, HeaderSize: 28, Version: 1, CompressedSize: int64(z.Len()), UncompressedSize: int64(len(toc)), HashType: hashSHA1})
	b.Write(z.Bytes())
	sum := sha1.Sum(z.Bytes())
	b.Write(sum[:])
	return b.Bytes()
}

func TestReplayXarSignatureSizesFromTheTOC(t *testing.T) {
	for name, el := range map[string]string{
		"negative classic signature size": `<signature style="RSA"><offset>20</offset><size>-1</size></signature>`,
		"negative CMS signature size":     `<x-signature style="CMS"><offset>20</offset><size>-7</size></x-signature>`,
		"256 MiB CMS signature size":      fmt.Sprintf(`<x-signature style="CMS"><offset>20</offset><size>%d</size></x-signature>`, 1<<28),
	} {
		data := xarWith(el)
		var before, after runtime.MemStats
		runtime.ReadMemStats(&before)
		func() {
			defer func() {
				if r := recover(); r != nil {
					t.Errorf("%s: Open panicked: %v", name, r)
				}
			}()
			_, _ = Open(bytes.NewReader(data), int64(len(data)))
		}()
		runtime.ReadMemStats(&after)
		if grown := after.TotalAlloc - before.TotalAlloc; grown > 16<<20 {
			t.Errorf("%s: %d bytes allocated while reading a %d-byte archive", name, grown, len(data))
		}
	}
}
