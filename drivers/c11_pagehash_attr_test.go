package authenticode

// Replay driver for the page-hash attribute parser (C11): the attribute lives in the signature of the file
// being verified, and its inner SET may be empty.
import (
	"encoding/asn1"
	"testing"
)

func TestReplayPageHashAttributeWithEmptySet(t *testing.T) {
	// SEQUENCE { OID pageHashV2, SET {} }
	attr, err := asn1.Marshal(struct {
		Type   asn1.ObjectIdentifier
		Hashes []asn1.RawValue `asn1:"set"`
	}{Type: OidSpcPageHashV2})
	if err != nil {
		t.Fatal(err)
	}
	// wrapped in a SET
	wrapped, err := asn1.Marshal(asn1.RawValue{Class: asn1.ClassUniversal, Tag: asn1.TagSet, IsCompound: true, Bytes: attr})
	if err != nil {
		t.Fatal(err)
	}
	sig := &PESignature{Indirect: new(SpcIndirectDataContentPe)}
	sig.Indirect.Data.Value.File.Moniker = SpcSerializedObject{ClassID: SpcUUIDPageHashes, SerializedData: wrapped}
	defer func() {
		if r := recover(); r != nil {
			t.Errorf("page hash attribute with an empty SET: readPageHashes panicked: %v", r)
		}
	}()
	if err := readPageHashes(sig); err == nil {
		t.Errorf("page hash attribute with an empty SET: accepted")
	}
}
