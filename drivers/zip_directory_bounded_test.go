package zipslicer

// Bounded stand-in (labelled bounded, never counted as proved) for the clause of C17 that the contracts leave
// open: the byte-level round trip of the central directory. For every combination of compressed size,
// uncompressed size and offset taken from values around the 32-bit limit, the directory written by the real
// WriteDirectory/GetDirectoryHeader must read back through the real ReadWithDirectory with the same values, and
// Go's archive/zip must agree on them.

import (
	"archive/zip"
	"bytes"
	"fmt"
	"os"
	"strconv"
	"testing"
)

type zeroReaderAt struct{}

func (zeroReaderAt) ReadAt(p []byte, off int64) (int, error) {
	for i := range p {
		p[i] = 0
	}
	return len(p), nil
}

func TestBoundedDirectoryRoundTrip(t *testing.T) {
	values := []uint64{0, 1, 0xfffffffe, 0xffffffff, 0x100000000, 0x123456789a, 0xffffffffff}
	n := 5
	if v, err := strconv.Atoi(os.Getenv("RELICVC_BOUND")); err == nil && v > 0 && v <= len(values) {
		n = v
	}
	values = values[:n]
	cases := 0
	for _, csize := range values {
		for _, usize := range values {
			for _, offset := range values {
				for _, nameLen := range []int{1, 300} {
					cases++
					name := string(bytes.Repeat([]byte{'n'}, nameLen))
					f := &File{Name: name, CreatorVersion: 20, ReaderVersion: 20, Method: 8, CRC32: 0x12345678,
						CompressedSize: csize, UncompressedSize: usize, Offset: offset}
					dirLoc := int64(offset + csize + 1000)
					d := &Directory{File: []*File{f}, DirLoc: dirLoc}
					var cd, eod bytes.Buffer
					if err := d.WriteDirectory(&cd, &eod, false); err != nil {
						t.Fatalf("csize=%#x usize=%#x offset=%#x: WriteDirectory: %v", csize, usize, offset, err)
					}
					all := append(append([]byte{}, cd.Bytes()...), eod.Bytes()...)
					size := dirLoc + int64(len(all))
					d2, err := ReadWithDirectory(zeroReaderAt{}, size, all)
					if err != nil {
						t.Fatalf("csize=%#x usize=%#x offset=%#x: ReadWithDirectory: %v", csize, usize, offset, err)
					}
					if len(d2.File) != 1 || d2.DirLoc != dirLoc {
						t.Fatalf("csize=%#x usize=%#x offset=%#x: %d members, directory at %d (want 1, %d)", csize, usize, offset, len(d2.File), d2.DirLoc, dirLoc)
					}
					g := d2.File[0]
					if g.Name != name || g.CompressedSize != csize || g.UncompressedSize != usize || g.Offset != offset || g.CRC32 != f.CRC32 || g.Method != f.Method {
						t.Fatalf("csize=%#x usize=%#x offset=%#x: read back as csize=%#x usize=%#x offset=%#x", csize, usize, offset, g.CompressedSize, g.UncompressedSize, g.Offset)
					}
					// the standard library as the independent reader of the same directory
					zr, err := zip.NewReader(tailReaderAt{all, dirLoc}, size)
					if err != nil {
						t.Fatalf("csize=%#x usize=%#x offset=%#x: archive/zip refuses the directory: %v", csize, usize, offset, err)
					}
					if len(zr.File) != 1 || zr.File[0].CompressedSize64 != csize || zr.File[0].UncompressedSize64 != usize || zr.File[0].Name != name {
						t.Fatalf("csize=%#x usize=%#x offset=%#x: archive/zip sees %d members, csize=%#x usize=%#x", csize, usize, offset, len(zr.File), zr.File[0].CompressedSize64, zr.File[0].UncompressedSize64)
					}
				}
			}
		}
	}
	fmt.Printf("BOUNDED-CASES %d\n", cases)
}

// tailReaderAt presents a huge sparse file whose last bytes are the directory.
type tailReaderAt struct {
	tail  []byte
	start int64
}

func (r tailReaderAt) ReadAt(p []byte, off int64) (int, error) {
	for i := range p {
		o := off + int64(i) - r.start
		if o >= 0 && o < int64(len(r.tail)) {
			p[i] = r.tail[o]
		} else {
			p[i] = 0
		}
	}
	return len(p), nil
}
