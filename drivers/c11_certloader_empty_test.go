package certloader

// Replay driver for the key and certificate file parsers (C11): an empty file is malformed input and must
// be reported, not crash the process that loads it.
import (
	"bytes"
	"os"
	"path/filepath"
	"testing"

	"github.com/ProtonMail/go-crypto/openpgp"
)

func TestReplayEmptyKeyAndCertificateFiles(t *testing.T) {
	func() {
		defer func() {
			if r := recover(); r != nil {
				t.Errorf("ParseAnyPrivateKey(empty) panicked: %v", r)
			}
		}()
		if _, err := ParseAnyPrivateKey(nil, nil); err == nil {
			t.Errorf("ParseAnyPrivateKey(empty) reported no error")
		}
	}()
	func() {
		defer func() {
			if r := recover(); r != nil {
				t.Errorf("LoadAnyCerts(empty file) panicked: %v", r)
			}
		}()
		p := filepath.Join(t.TempDir(), "empty.crt")
		os.WriteFile(p, nil, 0o600)
		if _, err := LoadAnyCerts([]string{p}); err == nil {
			t.Errorf("LoadAnyCerts(empty file) reported no error")
		}
	}()
}

// The documentation of ParseAnyPrivateKey makes the password prompt optional; an encrypted PGP key without
// a prompt must be an error like it is for an encrypted PEM key.
func TestReplayEncryptedPgpKeyWithoutPrompt(t *testing.T) {
	ent, err := openpgp.NewEntity("demo", "", "demo@example.com", nil)
	if err != nil {
		t.Fatal(err)
	}
	if err := ent.PrivateKey.Encrypt([]byte("secret")); err != nil {
		t.Fatal(err)
	}
	var b bytes.Buffer
	if err := ent.SerializePrivateWithoutSigning(&b, nil); err != nil {
		t.Fatal(err)
	}
	defer func() {
		if r := recover(); r != nil {
			t.Errorf("encrypted PGP key without a prompt: ParseAnyPrivateKey panicked: %v", r)
		}
	}()
	if _, err := ParseAnyPrivateKey(b.Bytes(), nil); err == nil {
		t.Errorf("encrypted PGP key without a prompt: no error")
	}
}
