package signdeb

// Replay driver for the Sign obligations (C03/C08): the region cut out of the package is exactly the old
// signature member of the same role with its padding, and a member size relic cannot trust is refused.
import (
	"archive/tar"
	"bytes"
	"crypto"
	_ "crypto/md5"
	_ "crypto/sha1"
	_ "crypto/sha256"
	"fmt"
	"testing"

	"github.com/ProtonMail/go-crypto/openpgp"
)

func arMember(name string, size string, body []byte) []byte {
	var b bytes.Buffer
	fmt.Fprintf(&b, "%-16s%-12s%-6s%-6s%-8s%-10s`\n", name, "0", "0", "0", "100644", size)
	b.Write(body)
	if len(body)%2 == 1 {
		b.WriteByte('\n')
	}
	return b.Bytes()
}

func controlTar(t *testing.T) []byte {
	var b bytes.Buffer
	tw := tar.NewWriter(&b)
	body := []byte("Package: demo\nVersion: 1.0\nArchitecture: all\n")
	tw.WriteHeader(&tar.Header{Name: "./control", Mode: 0o644, Size: int64(len(body))})
	tw.Write(body)
	tw.Close()
	return b.Bytes()
}

func buildDeb(t *testing.T, oldSigSizeField string, oldSig []byte) []byte {
	var b bytes.Buffer
	b.WriteString("!<arch>\n")
	b.Write(arMember("debian-binary", "4", []byte("2.0\n")))
	ct := controlTar(t)
	b.Write(arMember("control.tar", fmt.Sprint(len(ct)), ct))
	b.Write(arMember("data.tar", "3", []byte("abc")))
	if oldSig != nil {
		b.Write(arMember("_gpgbuilder", oldSigSizeField, oldSig))
	}
	return b.Bytes()
}

func TestReplaySignCutsExactlyTheOldSignatureMember(t *testing.T) {
	signer, err := openpgp.NewEntity("demo", "", "demo@example.com", nil)
	if err != nil {
		t.Fatal(err)
	}
	for _, c := range []struct {
		field string
		body  []byte
	}{{"", nil}, {"6", []byte("oldsig")}, {"7", []byte("oldsig7")}, {"-2", nil}, {"-3", nil}} {
		var deb []byte
		if c.field == "" {
			deb = buildDeb(t, "", nil)
		} else if c.body == nil {
			deb = buildDeb(t, c.field, []byte{})
		} else {
			deb = buildDeb(t, c.field, c.body)
		}
		sig, err := Sign(bytes.NewReader(deb), signer, crypto.SHA256, "builder")
		if err != nil {
			continue // refusing is fine
		}
		p := sig.PatchSet
		if len(p.Patches) != 1 {
			t.Errorf("size field %q: %d patch regions", c.field, len(p.Patches))
			continue
		}
		h := p.Patches[0]
		end := h.Offset + int64(h.OldSize)
		if h.Offset < 8 || end > int64(len(deb)) {
			t.Errorf("size field %q: patch removes [%d,%d) of a %d-byte package", c.field, h.Offset, end, len(deb))
			continue
		}
		// apply the patch by hand and re-read the package with an independent, strict ar walker
		out := append(append(append([]byte{}, deb[:h.Offset]...), p.Blobs[0]...), deb[end:]...)
		if msg := strictAr(out); msg != "" {
			t.Errorf("size field %q: signed package is not a well-formed ar archive: %s", c.field, msg)
		}
		if c.body != nil {
			want := 60 + len(c.body) + len(c.body)%2
			if int(h.OldSize) != want || end != int64(len(deb)) {
				t.Errorf("size field %q: removes %d bytes ending at %d, want %d ending at %d", c.field, h.OldSize, end, want, len(deb))
			}
		} else if c.field == "" && (h.OldSize != 0 || h.Offset != int64(len(deb))) {
			t.Errorf("unsigned package: patch removes %d bytes at %d", h.OldSize, h.Offset)
		}
	}
}

// strictAr walks an ar archive and reports the first malformation.
func strictAr(b []byte) string {
	if !bytes.HasPrefix(b, []byte("!<arch>\n")) {
		return "global header missing"
	}
	pos, sigs := 8, 0
	for pos < len(b) {
		if pos+60 > len(b) {
			return fmt.Sprintf("truncated member header at %d", pos)
		}
		h := b[pos : pos+60]
		if h[58] != '`' || h[59] != '\n' {
			return fmt.Sprintf("member header at %d lacks its terminator", pos)
		}
		var size int
		if _, err := fmt.Sscanf(string(bytes.TrimSpace(h[48:58])), "%d", &size); err != nil || size < 0 {
			return fmt.Sprintf("member at %d has size field %q", pos, h[48:58])
		}
		if bytes.HasPrefix(h, []byte("_gpgbuilder")) {
			sigs++
		}
		pos += 60 + size + size%2
	}
	if pos != len(b) {
		return "last member is short"
	}
	if sigs != 1 {
		return fmt.Sprintf("%d signature members for the role", sigs)
	}
	return ""
}
