package machos

// Replay driver for the Mach-O signer's space reservation (C11): segment sizes are fields of the uploaded file.
import (
	"bytes"
	"context"
	"crypto"
	_ "crypto/sha256"
	"encoding/binary"
	"testing"

	"github.com/sassoftware/relic/v8/lib/fruit/csblob"
)

func linkEditOnly(fileoff, filesize uint64) []byte {
	var b bytes.Buffer
	le := binary.LittleEndian
	binary.Write(&b, le, []uint32{0xfeedfacf, 0x01000007, 3, 2, 1, 72, 0, 0})
	binary.Write(&b, le, []uint32{0x19, 72})
	name := make([]byte, 16)
	copy(name, "__LINKEDIT")
	b.Write(name)
	binary.Write(&b, le, []uint64{0, 0, fileoff, filesize})
	binary.Write(&b, le, []uint32{7, 1, 0, 0})
	return b.Bytes()
}

func TestReplaySignImageWithImplausibleLinkEditSize(t *testing.T) {
	for _, size := range []uint64{1 << 56, 1 << 62, 1<<63 + 4096} {
		func() {
			defer func() {
				if r := recover(); r != nil {
					t.Errorf("__LINKEDIT file size %#x: Sign panicked: %v", size, r)
				}
			}()
			_, _, err := Sign(context.Background(), bytes.NewReader(linkEditOnly(0, size)), nil, &csblob.SignatureParams{HashFunc: crypto.SHA256})
			if err == nil {
				t.Errorf("__LINKEDIT file size %#x: accepted", size)
			}
		}()
	}
}

func TestReplaySignImageWithoutLinkEditSegment(t *testing.T) {
	var b bytes.Buffer
	binary.Write(&b, binary.LittleEndian, []uint32{0xfeedfacf, 0x01000007, 3, 2, 0, 0, 0, 0})
	b.Write(make([]byte, 64))
	defer func() {
		if r := recover(); r != nil {
			t.Errorf("image without load commands: Sign panicked: %v", r)
		}
	}()
	if _, _, err := Sign(context.Background(), bytes.NewReader(b.Bytes()), nil, &csblob.SignatureParams{HashFunc: crypto.SHA256}); err == nil {
		t.Errorf("image without a __LINKEDIT segment: accepted")
	}
}
