package signxap

// Replay driver for the XAP digester (C03): the archive body is what remains of the zip member after the
// directory member of the uploaded tar stream.
import (
	"archive/tar"
	"bytes"
	"crypto"
	_ "crypto/sha256"
	"encoding/binary"
	"testing"

	"github.com/sassoftware/relic/v8/lib/zipslicer"
)

func TestReplayDigestUploadWhoseDirectoryMemberIsLongerThanTheArchive(t *testing.T) {
	var tb bytes.Buffer
	tw := tar.NewWriter(&tb)
	var cdb bytes.Buffer
	cdb.Write(make([]byte, 90))
	binary.Write(&cdb, binary.LittleEndian, xapTrailer{Magic: trailerMagic, Unknown1: 1, TrailerSize: 80})
	cd := cdb.Bytes()
	z := make([]byte, 10)
	tw.WriteHeader(&tar.Header{Name: zipslicer.TarMemberCD, Mode: 0644, Size: int64(len(cd))})
	tw.Write(cd)
	tw.WriteHeader(&tar.Header{Name: zipslicer.TarMemberZip, Mode: 0644, Size: int64(len(z))})
	tw.Write(z)
	tw.Close()
	d, err := DigestXapTar(&tb, crypto.SHA256, false)
	if err != nil {
		return
	}
	if d.PatchStart < 0 || d.PatchLen < 0 || d.PatchStart+d.PatchLen > int64(len(z)) {
		t.Errorf("a %d-byte archive is to be patched at offset %d, replacing %d bytes", len(z), d.PatchStart, d.PatchLen)
	}
}
