package authenticode

// Replay driver for the PE checksum obligations (C05/C09): the checksum must not depend on how the image is cut
// into Write calls, in particular not when the checksum field starts at or straddles a chunk boundary.
import (
	"bytes"
	"testing"
)

func TestReplayPEChecksumIndependentOfChunking(t *testing.T) {
	const peStart = 40
	img := make([]byte, 256)
	for i := range img {
		img[i] = byte(i*7 + 3)
	}
	whole := NewPEChecksum(peStart)
	whole.Write(img)
	want := whole.Sum(nil)
	for cut := 2; cut < len(img); cut += 2 {
		h := NewPEChecksum(peStart)
		h.Write(img[:cut])
		h.Write(img[cut:])
		if got := h.Sum(nil); !bytes.Equal(got, want) {
			t.Errorf("image written as %d + %d bytes (checksum field at %d): checksum %x, written at once %x", cut, len(img)-cut, peStart+88, got, want)
		}
	}
}
