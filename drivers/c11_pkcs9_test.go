package pkcs9

// Replay driver for unpackTokenInfo#index[1]: a token whose content is empty must give an error.
import (
	"encoding/asn1"
	"testing"

	"github.com/sassoftware/relic/v8/lib/pkcs7"
)

func TestReplayUnpackEmptyTokenInfo(t *testing.T) {
	defer func() {
		if r := recover(); r != nil {
			t.Fatalf("unpackTokenInfo panicked on an empty content: %v", r)
		}
	}()
	psd := new(pkcs7.ContentInfoSignedData)
	// explicit [0] wrapper with no bytes inside
	psd.Content.ContentInfo.Raw = asn1.RawValue{}.FullBytes
	ci, err := pkcs7.NewContentInfo(OidTSTInfo, nil)
	if err == nil {
		psd.Content.ContentInfo = ci
	}
	_, _ = unpackTokenInfo(psd)
	// and a content that is an empty OCTET STRING body
	raw, _ := asn1.Marshal(struct {
		T asn1.ObjectIdentifier
		C asn1.RawValue `asn1:"explicit,tag:0"`
	}{OidTSTInfo, asn1.RawValue{Class: asn1.ClassContextSpecific, Tag: 0, IsCompound: true, Bytes: []byte{}}})
	var ci2 pkcs7.ContentInfo
	if _, err := asn1.Unmarshal(raw, &ci2); err == nil {
		psd.Content.ContentInfo = ci2
		_, _ = unpackTokenInfo(psd)
	}
}
