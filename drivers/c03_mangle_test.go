package zipslicer

// Replay driver for the Mangle obligations (C03): a kept member must be listed where its bytes
// really are in the patched output, for archives with leading or embedded non-archive data too.
import (
	"archive/zip"
	"bytes"
	"io"
	"os"
	"path/filepath"
	"testing"
)

func buildZip(t *testing.T, prefix []byte, names []string) []byte {
	var zbuf bytes.Buffer
	zbuf.Write(prefix)
	zw := zip.NewWriter(&zbuf)
	zw.SetOffset(int64(len(prefix)))
	for _, n := range names {
		w, err := zw.Create(n)
		if err != nil {
			t.Fatal(err)
		}
		w.Write([]byte("contents of " + n))
	}
	if err := zw.Close(); err != nil {
		t.Fatal(err)
	}
	return zbuf.Bytes()
}

func mangleAndApply(t *testing.T, data []byte, drop string) []byte {
	d, err := Read(bytes.NewReader(data), int64(len(data)))
	if err != nil {
		t.Fatal(err)
	}
	m, err := d.Mangle(func(f *MangleFile) error {
		if f.Name == drop {
			f.Delete()
		}
		return nil
	})
	if err != nil {
		t.Fatal(err)
	}
	if err := m.NewFile("added.txt", []byte("new member")); err != nil {
		t.Fatal(err)
	}
	patch, err := m.MakePatch(false)
	if err != nil {
		t.Fatal(err)
	}
	dir := t.TempDir()
	inpath := filepath.Join(dir, "in.zip")
	outpath := filepath.Join(dir, "out.zip")
	if err := os.WriteFile(inpath, data, 0o644); err != nil {
		t.Fatal(err)
	}
	inf, err := os.Open(inpath)
	if err != nil {
		t.Fatal(err)
	}
	defer inf.Close()
	if err := patch.Apply(inf, outpath); err != nil {
		t.Fatal(err)
	}
	out, err := os.ReadFile(outpath)
	if err != nil {
		t.Fatal(err)
	}
	return out
}

func checkMembers(t *testing.T, what string, out []byte, want []string) {
	zr, err := zip.NewReader(bytes.NewReader(out), int64(len(out)))
	if err != nil {
		t.Errorf("%s: output rejected by archive/zip: %v", what, err)
		return
	}
	got := map[string]string{}
	for _, f := range zr.File {
		rc, err := f.Open()
		if err != nil {
			t.Errorf("%s: member %s unreadable: %v", what, f.Name, err)
			continue
		}
		b, err := io.ReadAll(rc)
		rc.Close()
		if err != nil {
			t.Errorf("%s: member %s unreadable: %v", what, f.Name, err)
			continue
		}
		got[f.Name] = string(b)
	}
	for _, n := range want {
		if got[n] != "contents of "+n {
			t.Errorf("%s: member %s has %q", what, n, got[n])
		}
	}
	if got["added.txt"] != "new member" {
		t.Errorf("%s: added member has %q", what, got["added.txt"])
	}
}

func TestReplayMangleKeepsMembersWhereTheirBytesAre(t *testing.T) {
	names := []string{"a.txt", "b.txt", "c.txt"}
	for _, prefix := range [][]byte{nil, []byte("#!/bin/sh\nexec java -jar \"$0\"\n")} {
		data := buildZip(t, prefix, names)
		for _, drop := range []string{"", "a.txt", "b.txt", "c.txt"} {
			var want []string
			for _, n := range names {
				if n != drop {
					want = append(want, n)
				}
			}
			out := mangleAndApply(t, data, drop)
			what := "prefix " + string(rune('0'+len(prefix)%10)) + " drop " + drop
			checkMembers(t, what, out, want)
			if !bytes.HasPrefix(out, prefix) {
				t.Errorf("%s: leading data changed", what)
			}
		}
	}
}
