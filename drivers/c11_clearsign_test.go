package pgptools

// Replay driver for the clear-signature helpers (C11, "no hang"): the helper goroutine that filters the output of
// the signer reads it line by line with a bounded scanner; the document is the caller's text.
import (
	"bytes"
	"strings"
	"testing"
	"time"

	"github.com/ProtonMail/go-crypto/openpgp"
	"github.com/ProtonMail/go-crypto/openpgp/packet"
)

func TestReplayClearSignDocumentWithAVeryLongLine(t *testing.T) {
	ent, err := openpgp.NewEntity("t", "", "t@example.com", &packet.Config{RSABits: 2048})
	if err != nil {
		t.Fatal(err)
	}
	msg := "short line\n" + strings.Repeat("x", 200000) + "\nlast\n"
	done := make(chan error, 1)
	go func() {
		var out bytes.Buffer
		done <- DetachClearSign(&out, ent, strings.NewReader(msg), nil)
	}()
	select {
	case <-done:
	case <-time.After(10 * time.Second):
		t.Errorf("a 200000-character line: DetachClearSign did not return within 10 s (helper stopped reading, signer blocked on the pipe)")
	}
}
