package xar

// Replay driver for the xar signer (C03): the sizes of the old checksum and signatures come from the XML table
// of contents of the uploaded archive.
import (
	"bytes"
	"compress/zlib"
	"context"
	"crypto"
	"crypto/ecdsa"
	"crypto/elliptic"
	"crypto/rand"
	"crypto/sha1"
	_ "crypto/sha256"
	"crypto/x509"
	"crypto/x509/pkix"
	"encoding/binary"
	"math/big"
	"testing"
	"time"

	"github.com/sassoftware/relic/v8/lib/certloader"
)

func xarWithChecksumSize(size string) []byte {
	toc := `<?xml version="1.0" encoding="UTF-8"?><xar><toc><checksum style="sha1"><offset>0</offset><size>` + size + `</size></checksum></toc></xar>`
	var z bytes.Buffer
	zw := zlib.NewWriter(&z)
	zw.Write([]byte(toc))
	zw.Close()
	var b bytes.Buffer
	binary.Write(&b, binary.BigEndian, fileHeader{Magic: xarMagic, HeaderSize: 28, Version: 1, CompressedSize: int64(z.Len()), UncompressedSize: int64(len(toc)), HashType: hashSHA1})
	b.Write(z.Bytes())
	sum := sha1.Sum(z.Bytes())
	b.Write(sum[:])
	return b.Bytes()
}

func TestReplaySignArchiveWithImplausibleSignatureSizes(t *testing.T) {
	key, err := ecdsa.GenerateKey(elliptic.P256(), rand.Reader)
	if err != nil {
		t.Fatal(err)
	}
	tmpl := &x509.Certificate{SerialNumber: big.NewInt(1), Subject: pkix.Name{CommonName: "t"}, NotBefore: time.Now().Add(-time.Hour), NotAfter: time.Now().Add(time.Hour)}
	der, err := x509.CreateCertificate(rand.Reader, tmpl, tmpl, &key.PublicKey, key)
	if err != nil {
		t.Fatal(err)
	}
	leaf, err := x509.ParseCertificate(der)
	if err != nil {
		t.Fatal(err)
	}
	cert := &certloader.Certificate{Leaf: leaf, Certificates: []*x509.Certificate{leaf}, PrivateKey: key}
	for _, size := range []string{"-1000000", "-29"} {
		data := xarWithChecksumSize(size)
		patch, _, err := Sign(context.Background(), bytes.NewReader(data), cert, crypto.SHA256)
		if err != nil {
			continue
		}
		for _, p := range patch.Patches {
			if p.Offset != 0 || int64(p.OldSize) > int64(len(data)) || int64(p.OldSize) < 28 {
				t.Errorf("checksum size %s: a %d-byte archive was signed into a patch that replaces %d bytes at offset %d", size, len(data), p.OldSize, p.Offset)
			}
		}
	}
}
