package zipslicer

// Replay drivers for Read / ReadWithDirectory nopanic and allocation obligations.
import (
	"archive/zip"
	"bytes"
	"encoding/binary"
	"testing"
)

func endRecord(cdOffset uint32, cdSize uint32, count uint16) []byte {
	// 20-byte zip64 locator area (zeros) + 22-byte end record
	b := make([]byte, 20+22)
	e := b[20:]
	binary.LittleEndian.PutUint32(e[0:], 0x06054b50)
	binary.LittleEndian.PutUint16(e[8:], count)
	binary.LittleEndian.PutUint16(e[10:], count)
	binary.LittleEndian.PutUint32(e[12:], cdSize)
	binary.LittleEndian.PutUint32(e[16:], cdOffset)
	return b
}

func TestReplayReadNoPanic(t *testing.T) {
	cases := map[string][]byte{
		"directory offset beyond the file": endRecord(1<<20, 0, 0),
		"truncated central directory":      append([]byte{0x50, 0x4b, 0x01, 0x02, 0, 0}, endRecord(0, 6, 1)...),
		"directory of 3 bytes":             append([]byte{1, 2, 3}, endRecord(0, 3, 0)...),
	}
	for name, data := range cases {
		func() {
			defer func() {
				if r := recover(); r != nil {
					t.Errorf("%s: Read panicked: %v", name, r)
				}
			}()
			_, _ = Read(bytes.NewReader(data), int64(len(data)))
		}()
	}
}

// Replay driver for GetOriginalDirectory obligations (C17): re-serialising an unmodified
// directory must reproduce the original tail of the archive.
func TestReplayOriginalDirectoryRoundTrip(t *testing.T) {
	var zbuf bytes.Buffer
	zw := zip.NewWriter(&zbuf)
	for _, n := range []string{"a.txt", "dir/b.bin"} {
		w, _ := zw.Create(n)
		w.Write([]byte("hello " + n))
	}
	zw.Close()
	data := zbuf.Bytes()
	d, err := Read(bytes.NewReader(data), int64(len(data)))
	if err != nil {
		t.Fatal(err)
	}
	var cd, eod []byte
	func() {
		defer func() {
			if r := recover(); r != nil {
				t.Fatalf("GetOriginalDirectory panicked: %v", r)
			}
		}()
		cd, eod, err = d.GetOriginalDirectory(false)
	}()
	if err != nil {
		t.Fatal(err)
	}
	got := append(append([]byte{}, cd...), eod...)
	if want := data[d.DirLoc:]; !bytes.Equal(got, want) {
		t.Fatalf("re-serialised directory differs from the original bytes: %d bytes instead of %d", len(got), len(want))
	}
}
