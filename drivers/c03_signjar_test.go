package signjar

// Replay driver for the insertSignature obligations (C03): after the signature files are inserted,
// every kept member must be listed where its bytes really are, also for a JAR with leading data.
import (
	"archive/zip"
	"bytes"
	"crypto"
	"crypto/rsa"
	"crypto/x509"
	"io"
	"os"
	"path/filepath"
	"testing"

	"github.com/sassoftware/relic/v8/lib/zipslicer"
)

func buildJar(t *testing.T, prefix []byte, names []string) []byte {
	var zbuf bytes.Buffer
	zbuf.Write(prefix)
	zw := zip.NewWriter(&zbuf)
	zw.SetOffset(int64(len(prefix)))
	w, _ := zw.Create("META-INF/MANIFEST.MF")
	w.Write([]byte("Manifest-Version: 1.0\r\n\r\n"))
	for _, n := range names {
		w, err := zw.Create(n)
		if err != nil {
			t.Fatal(err)
		}
		w.Write([]byte("contents of " + n))
	}
	if err := zw.Close(); err != nil {
		t.Fatal(err)
	}
	return zbuf.Bytes()
}

func TestReplayInsertSignatureKeepsMembersWhereTheirBytesAre(t *testing.T) {
	names := []string{"a.class", "META-INF/OLD.SF", "dir/b.class"}
	for _, prefix := range [][]byte{nil, []byte("#!/bin/sh\nexec java -jar \"$0\" \"$@\"\n")} {
		data := buildJar(t, prefix, names)
		inz, err := zipslicer.Read(bytes.NewReader(data), int64(len(data)))
		if err != nil {
			t.Fatal(err)
		}
		jd, err := updateManifest(inz, crypto.SHA256)
		if err != nil {
			t.Fatal(err)
		}
		cert := &x509.Certificate{PublicKey: &rsa.PublicKey{}}
		patch, err := jd.insertSignature(cert, "signer", []byte("signature file"), []byte("signature block"))
		if err != nil {
			// refusing is allowed, rewriting wrongly is not
			continue
		}
		dir := t.TempDir()
		inpath, outpath := filepath.Join(dir, "in.jar"), filepath.Join(dir, "out.jar")
		os.WriteFile(inpath, data, 0o644)
		inf, err := os.Open(inpath)
		if err != nil {
			t.Fatal(err)
		}
		err = patch.Apply(inf, outpath)
		inf.Close()
		if err != nil {
			t.Fatal(err)
		}
		out, _ := os.ReadFile(outpath)
		zr, err := zip.NewReader(bytes.NewReader(out), int64(len(out)))
		if err != nil {
			t.Errorf("prefix of %d bytes: output rejected by archive/zip: %v", len(prefix), err)
			continue
		}
		got := map[string]string{}
		for _, f := range zr.File {
			rc, err := f.Open()
			if err != nil {
				t.Errorf("prefix of %d bytes: member %s unreadable: %v", len(prefix), f.Name, err)
				continue
			}
			b, err := io.ReadAll(rc)
			rc.Close()
			if err != nil {
				t.Errorf("prefix of %d bytes: member %s unreadable: %v", len(prefix), f.Name, err)
			}
			got[f.Name] = string(b)
		}
		for _, n := range []string{"a.class", "dir/b.class"} {
			if got[n] != "contents of "+n {
				t.Errorf("prefix of %d bytes: member %s has %q", len(prefix), n, got[n])
			}
		}
		if got["META-INF/SIGNER.SF"] != "signature file" || got["META-INF/SIGNER.RSA"] != "signature block" {
			t.Errorf("prefix of %d bytes: signature members missing or damaged: %q", len(prefix), got)
		}
		if _, ok := got["META-INF/OLD.SF"]; ok {
			t.Errorf("prefix of %d bytes: old signature file kept", len(prefix))
		}
	}
}
