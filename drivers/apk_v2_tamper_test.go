package apk

// Replay driver (scenario) for verify#before[v2_content_digests_are_recomputed_from_the_file]:
// a v2-signed APK is altered in bytes that only the v2 digest protects (the modification time in a
// member's LOCAL header: JAR/v1 verification reads metadata from the central directory and digests
// the uncompressed contents, so it cannot see this). A verifier with integrity checking enabled must
// reject the file.

import (
	"bytes"
	"crypto"
	"crypto/ecdsa"
	"crypto/elliptic"
	"crypto/rand"
	"crypto/x509"
	"crypto/x509/pkix"
	"encoding/binary"
	"io"
	"math/big"
	"os"
	"path/filepath"
	"testing"
	"time"

	"github.com/sassoftware/relic/v8/lib/audit"
	"github.com/sassoftware/relic/v8/lib/certloader"
	"github.com/sassoftware/relic/v8/signers"
	"github.com/sassoftware/relic/v8/signers/zipbased"
)

func TestReplayApkV2ContentTamper(t *testing.T) {
	key, err := ecdsa.GenerateKey(elliptic.P256(), rand.Reader)
	if err != nil {
		t.Fatal(err)
	}
	tmpl := &x509.Certificate{SerialNumber: big.NewInt(1), Subject: pkix.Name{CommonName: "replay"},
		NotBefore: time.Now().Add(-time.Hour), NotAfter: time.Now().Add(time.Hour), KeyUsage: x509.KeyUsageDigitalSignature}
	der, err := x509.CreateCertificate(rand.Reader, tmpl, tmpl, &key.PublicKey, key)
	if err != nil {
		t.Fatal(err)
	}
	leaf, _ := x509.ParseCertificate(der)
	cert := &certloader.Certificate{Leaf: leaf, Certificates: []*x509.Certificate{leaf}, PrivateKey: key}

	dir := t.TempDir()
	src, err := os.ReadFile("../../functest/packages/dummy.apk")
	if err != nil {
		t.Skip("sample APK not available: ", err)
	}
	path := filepath.Join(dir, "signed.apk")
	if err := os.WriteFile(path, src, 0o644); err != nil {
		t.Fatal(err)
	}
	f, err := os.OpenFile(path, os.O_RDWR, 0)
	if err != nil {
		t.Fatal(err)
	}
	opts := signers.SignOpts{Hash: crypto.SHA256, Time: time.Now(), Audit: audit.New("k", "apk", crypto.SHA256)}
	tr, err := zipbased.Transform(f, opts)
	if err != nil {
		t.Fatal(err)
	}
	stream, err := tr.GetReader()
	if err != nil {
		t.Fatal(err)
	}
	blob, err := sign(stream, cert, opts)
	if err != nil {
		t.Fatal("sign: ", err)
	}
	if err := tr.Apply(path, opts.Audit.GetMimeType(), bytes.NewReader(blob)); err != nil {
		t.Fatal("apply: ", err)
	}
	f.Close()

	check := func(p string) error {
		g, err := os.Open(p)
		if err != nil {
			t.Fatal(err)
		}
		defer g.Close()
		_, err = verify(g, signers.VerifyOpts{})
		return err
	}
	if err := check(path); err != nil {
		t.Fatal("freshly signed APK does not verify: ", err)
	}
	// tamper: local file header of the first member, modification time field (offset 10..11)
	data, _ := os.ReadFile(path)
	if binary.LittleEndian.Uint32(data) != 0x04034b50 {
		t.Fatal("unexpected layout")
	}
	data[10] ^= 0x21
	tampered := filepath.Join(dir, "tampered.apk")
	os.WriteFile(tampered, data, 0o644)
	if err := check(tampered); err == nil {
		t.Fatal("APK with altered v2-protected bytes (local header of the first member) still verifies: the v2 content digest is never recomputed")
	}
	_ = io.EOF
}
