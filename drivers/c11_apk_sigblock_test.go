package apk

// Replay driver for getSigBlock nopanic obligations: a short "signing block" that consists of
// little more than the magic must give an error, not a slice-bounds panic.
import (
	"archive/zip"
	"bytes"
	"encoding/binary"
	"os"
	"path/filepath"
	"testing"

	"github.com/sassoftware/relic/v8/signers"
)

func TestReplayShortSigningBlock(t *testing.T) {
	var zbuf bytes.Buffer
	zw := zip.NewWriter(&zbuf)
	w, _ := zw.Create("classes.dex")
	w.Write([]byte("payload"))
	zw.Close()
	data := zbuf.Bytes()
	// locate the end record (22 bytes, no comment) and the directory offset
	end := len(data) - 22
	cdOff := int(binary.LittleEndian.Uint32(data[end+16:]))
	for _, gap := range [][]byte{
		append([]byte{1, 2, 3, 4}, []byte(sigMagic)...), // 20 bytes
		[]byte(sigMagic), // 16 bytes
	} {
		out := append([]byte{}, data[:cdOff]...)
		out = append(out, gap...)
		out = append(out, data[cdOff:]...)
		binary.LittleEndian.PutUint32(out[end+len(gap)+16:], uint32(cdOff+len(gap)))
		path := filepath.Join(t.TempDir(), "x.apk")
		os.WriteFile(path, out, 0o644)
		f, err := os.Open(path)
		if err != nil {
			t.Fatal(err)
		}
		func() {
			defer f.Close()
			defer func() {
				if r := recover(); r != nil {
					t.Errorf("verify panicked on a %d-byte signing block: %v", len(gap), r)
				}
			}()
			_, _ = verify(f, signers.VerifyOpts{})
		}()
	}
}
