package authenticode

// Replay driver for the MSI extended-metadata digest (C11): the name length of a directory entry is a field of the
// file and is used to slice the 128-byte entry.
import (
	"bytes"
	"crypto"
	_ "crypto/sha256"
	"encoding/binary"
	"os"
	"testing"

	"github.com/sassoftware/relic/v8/lib/comdoc"
)

func TestReplayPrehashEntryWithImplausibleNameLength(t *testing.T) {
	orig, err := os.ReadFile("../../functest/packages/dummy.msi")
	if err != nil {
		t.Skip("fixture not present: ", err)
	}
	for _, nameLength := range []uint16{0, 1, 200} {
		raw := append([]byte{}, orig...)
		cdf, err := comdoc.ReadFile(bytes.NewReader(raw))
		if err != nil {
			t.Fatal(err)
		}
		// patch the name length of the last stream entry in the first directory sector
		dirStart := (int(cdf.Header.DirNextSector) + 1) * cdf.SectorSize
		patched := false
		for i := cdf.SectorSize/128 - 1; i > 0; i-- {
			if cdf.Files[i].Type == comdoc.DirStream {
				binary.LittleEndian.PutUint16(raw[dirStart+128*i+64:], nameLength)
				patched = true
				break
			}
		}
		if !patched {
			t.Skip("no stream entry in the first directory sector")
		}
		func() {
			defer func() {
				if r := recover(); r != nil {
					t.Errorf("name length %d: PrehashMSI panicked: %v", nameLength, r)
				}
			}()
			cdf2, err := comdoc.ReadFile(bytes.NewReader(raw))
			if err != nil {
				return
			}
			_, _ = PrehashMSI(cdf2, crypto.SHA256)
		}()
	}
}
