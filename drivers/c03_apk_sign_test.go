package apk

// Replay driver for the APK v2 signer (C03): the position of the central directory is derived from the size of the
// directory member of the uploaded tar stream.
import (
	"archive/tar"
	"archive/zip"
	"bytes"
	"crypto"
	"crypto/ecdsa"
	"crypto/elliptic"
	"crypto/rand"
	_ "crypto/sha256"
	"crypto/x509"
	"crypto/x509/pkix"
	"math/big"
	"testing"
	"time"

	"github.com/sassoftware/relic/v8/lib/certloader"
	"github.com/sassoftware/relic/v8/lib/zipslicer"
)

func TestReplaySignUploadWhoseDirectoryMemberIsTooLong(t *testing.T) {
	var zb bytes.Buffer
	zw := zip.NewWriter(&zb)
	w, _ := zw.Create("classes.dex")
	w.Write([]byte("hello"))
	zw.Close()
	z := zb.Bytes()
	cdStart := bytes.Index(z, []byte("PK\x01\x02"))
	cd := append(append([]byte{}, z[cdStart:]...), make([]byte, 100)...)
	var tb bytes.Buffer
	tw := tar.NewWriter(&tb)
	tw.WriteHeader(&tar.Header{Name: zipslicer.TarMemberCD, Mode: 0644, Size: int64(len(cd))})
	tw.Write(cd)
	tw.WriteHeader(&tar.Header{Name: zipslicer.TarMemberZip, Mode: 0644, Size: int64(len(z))})
	tw.Write(z)
	tw.Close()
	d, err := digestApkStream(&tb, crypto.SHA256)
	if err != nil {
		return
	}
	key, err := ecdsa.GenerateKey(elliptic.P256(), rand.Reader)
	if err != nil {
		t.Fatal(err)
	}
	tmpl := &x509.Certificate{SerialNumber: big.NewInt(1), Subject: pkix.Name{CommonName: "t"}, NotBefore: time.Now().Add(-time.Hour), NotAfter: time.Now().Add(time.Hour)}
	der, err := x509.CreateCertificate(rand.Reader, tmpl, tmpl, &key.PublicKey, key)
	if err != nil {
		t.Fatal(err)
	}
	leaf, err := x509.ParseCertificate(der)
	if err != nil {
		t.Fatal(err)
	}
	patch, err := d.Sign(&certloader.Certificate{Leaf: leaf, Certificates: []*x509.Certificate{leaf}, PrivateKey: key})
	if err != nil {
		return
	}
	for _, p := range patch.Patches {
		if p.Offset < 0 || p.Offset > int64(len(z)) || int64(p.OldSize) > int64(len(z))-p.Offset {
			t.Errorf("a %d-byte archive was signed into a patch that replaces %d bytes at offset %d", len(z), p.OldSize, p.Offset)
		}
	}
}
