package comdoc

import (
	"bytes"
	"encoding/binary"
	"os"
	"path/filepath"
	"testing"
	"unicode/utf16"
)

// A compound document without a mini stream (no short-sector table at all) is legal: every stream is at least 4096 bytes.
func buildNoMiniStreamCFB() []byte {
	var hdr Header
	copy(hdr.Magic[:], fileMagic)
	hdr.Revision = 0x3e
	hdr.Version = 3
	hdr.ByteOrder = byteOrderMarker
	hdr.SectorSize = 9
	hdr.ShortSectorSize = 6
	hdr.SATSectors = 1
	hdr.DirNextSector = 1
	hdr.MinStdStreamSize = 4096
	hdr.SSATNextSector = SecIDEndOfChain
	hdr.SSATSectorCount = 0
	hdr.MSATNextSector = SecIDEndOfChain
	for i := range hdr.MSAT {
		hdr.MSAT[i] = SecIDFree
	}
	hdr.MSAT[0] = 0
	buf := new(bytes.Buffer)
	_ = binary.Write(buf, binary.LittleEndian, hdr)
	for buf.Len() < 512 {
		buf.WriteByte(0)
	}
	sat := make([]SecID, 128)
	for i := range sat {
		sat[i] = SecIDFree
	}
	sat[0] = SecIDSAT
	sat[1] = SecIDEndOfChain
	_ = binary.Write(buf, binary.LittleEndian, sat)
	dirs := make([]RawDirEnt, 4)
	for i := range dirs {
		dirs[i].LeftChild, dirs[i].RightChild, dirs[i].StorageRoot = -1, -1, -1
	}
	runes := utf16.Encode([]rune("Root Entry"))
	copy(dirs[0].NameRunes[:], runes)
	dirs[0].NameLength = uint16(2*len(runes) + 2)
	dirs[0].Type = DirRoot
	dirs[0].Color = Black
	dirs[0].NextSector = SecIDEndOfChain
	_ = binary.Write(buf, binary.LittleEndian, dirs)
	return buf.Bytes()
}

func TestReplayNoMiniStreamSignature(t *testing.T) {
	p := filepath.Join(t.TempDir(), "x.msi")
	if err := os.WriteFile(p, buildNoMiniStreamCFB(), 0600); err != nil {
		t.Fatal(err)
	}
	f, err := os.OpenFile(p, os.O_RDWR, 0)
	if err != nil {
		t.Fatal(err)
	}
	defer f.Close()
	cdf, err := WriteFile(f)
	if err != nil {
		t.Fatal("fixture rejected: ", err)
	}
	if err := cdf.AddFile("\x05DigitalSignature", make([]byte, 5000)); err != nil {
		t.Fatal(err)
	}
	if err := cdf.Close(); err != nil {
		t.Log("close returned error (fine): ", err)
		return
	}
	// re-read
	rd, err := ReadPath(p)
	if err != nil {
		t.Fatal("output unreadable: ", err)
	}
	defer rd.Close()
	files, err := rd.ListDir(nil)
	if err != nil {
		t.Fatal(err)
	}
	found := false
	for _, it := range files {
		if it.Name() == "\x05DigitalSignature" {
			found = true
			sr, err := rd.ReadStream(it)
			if err != nil {
				t.Fatal(err)
			}
			b := make([]byte, 6000)
			n, _ := sr.Read(b)
			_ = n
		}
	}
	if !found {
		t.Fatal("signature stream missing after rewrite")
	}
}
