package vsix

// Replay driver for the VSIX verifier (C11): the signature part is an XML document without a root element.
import (
	"archive/zip"
	"os"
	"path/filepath"
	"testing"

	"github.com/sassoftware/relic/v8/signers"
)

func TestReplaySignaturePartWithoutRootElement(t *testing.T) {
	for _, body := range []string{"", "<?xml version=\"1.0\"?>", "<!-- nothing here -->"} {
		p := filepath.Join(t.TempDir(), "x.vsix")
		f, err := os.Create(p)
		if err != nil {
			t.Fatal(err)
		}
		zw := zip.NewWriter(f)
		add := func(name, content string) {
			w, _ := zw.Create(name)
			w.Write([]byte(content))
		}
		const relsHead = `<?xml version="1.0" encoding="utf-8"?><Relationships xmlns="http://schemas.openxmlformats.org/package/2006/relationships">`
		add("_rels/.rels", relsHead+`<Relationship Type="`+sigOriginType+`" Target="/`+originPath+`" Id="R1"/></Relationships>`)
		add(originPath, "")
		add(relPath(originPath), relsHead+`<Relationship Type="`+sigType+`" Target="/`+xmlSigPath+`/s.psdsxs" Id="R2"/></Relationships>`)
		add(xmlSigPath+"/s.psdsxs", body)
		zw.Close()
		func() {
			defer func() {
				if r := recover(); r != nil {
					t.Errorf("signature part %q: verify panicked: %v", body, r)
				}
			}()
			_, err := verify(f, signers.VerifyOpts{})
			if err == nil {
				t.Errorf("signature part %q: accepted", body)
			}
			t.Log(err)
		}()
		f.Close()
	}
}
