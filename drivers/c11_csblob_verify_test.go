package csblob

// Replay driver for the Apple signature verifier (C11): a signature blob without any code directory.
import (
	"encoding/binary"
	"testing"
)

func TestReplayVerifySignatureWithoutCodeDirectory(t *testing.T) {
	blob := make([]byte, 12)
	binary.BigEndian.PutUint32(blob[0:], uint32(csEmbeddedSignature))
	binary.BigEndian.PutUint32(blob[4:], 12)
	binary.BigEndian.PutUint32(blob[8:], 0)
	defer func() {
		if r := recover(); r != nil {
			t.Errorf("signature blob without a code directory: Verify panicked: %v", r)
		}
	}()
	if _, err := Verify(blob, VerifyParams{}); err == nil {
		t.Errorf("signature blob without a code directory: accepted")
	}
}
