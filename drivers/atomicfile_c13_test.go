package atomicfile

// Replay drivers (scenarios) for the C13 obligations of package atomicfile.

import (
	"os"
	"path/filepath"
	"strings"
	"testing"
)

func leftovers(t *testing.T, dir string) []string {
	ents, err := os.ReadDir(dir)
	if err != nil {
		t.Fatal(err)
	}
	var out []string
	for _, e := range ents {
		if strings.Contains(e.Name(), ".tmp") {
			out = append(out, e.Name())
		}
	}
	return out
}

// Commit#after[destination_never_missing_*]: the destination existed before Commit; whatever
// happens during Commit it must still exist afterwards (old or new content). The window between
// os.Remove(dest) and os.Rename(tmp, dest) is made observable by a rename that fails.
func TestReplayCommitNeverLeavesDestinationMissing(t *testing.T) {
	dir := t.TempDir()
	dest := filepath.Join(dir, "out.bin")
	if err := os.WriteFile(dest, []byte("previous content"), 0o644); err != nil {
		t.Fatal(err)
	}
	f, err := New(dest)
	if err != nil {
		t.Fatal(err)
	}
	f.Write([]byte("new content"))
	// fault: the temporary file disappears (cleaner, concurrent run), so the rename step fails
	os.Remove(f.GetFile().Name())
	err = f.Commit()
	if _, serr := os.Stat(dest); serr != nil {
		t.Fatalf("destination existed before Commit and is gone afterwards (Commit returned %v): %v", err, serr)
	}
}

// WriteInPlace#ensures[no_temp_file_left_on_error]
func TestReplayWriteInPlaceLeavesNoTempOnError(t *testing.T) {
	dir := t.TempDir()
	srcPath := filepath.Join(dir, "in.bin")
	os.WriteFile(srcPath, []byte("input"), 0o644)
	src, err := os.Open(srcPath)
	if err != nil {
		t.Fatal(err)
	}
	src.Close() // fault: every operation on src now fails
	_, err = WriteInPlace(src, filepath.Join(dir, "out.bin"))
	if err == nil {
		t.Skip("no error provoked")
	}
	if l := leftovers(t, dir); len(l) > 0 {
		t.Fatalf("WriteInPlace returned error %q and left temporary file(s) %v", err, l)
	}
}

// Close#ensures[temp_file_unlinked] / WriteFile#ensures[no_temp_file_left]
func TestReplayCloseUnlinksTemp(t *testing.T) {
	dir := t.TempDir()
	f, err := New(filepath.Join(dir, "out.bin"))
	if err != nil {
		t.Fatal(err)
	}
	f.GetFile().Close() // fault: descriptor already closed, File.Close() will report an error
	f.Close()
	if l := leftovers(t, dir); len(l) > 0 {
		t.Fatalf("Close left temporary file(s) %v", l)
	}
}
