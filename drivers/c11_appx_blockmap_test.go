package signappx

// Replay driver for the block map merge (C11): the old block map is a member of the uploaded package.
import "testing"

func TestReplayOldBlockMapWithMoreBlocks(t *testing.T) {
	b := &blockMap{File: []blockFile{{Name: "a.txt", Block: []block{{Hash: "x"}}}}}
	old := []byte(`<BlockMap xmlns="http://schemas.microsoft.com/appx/2010/blockmap" HashMethod="http://www.w3.org/2001/04/xmlenc#sha256">` +
		`<File Name="a.txt" Size="1" LfhSize="30"><Block Hash="x" Size="1"/><Block Hash="y" Size="2"/></File></BlockMap>`)
	defer func() {
		if r := recover(); r != nil {
			t.Errorf("old block map lists more blocks than the file has: CopySizes panicked: %v", r)
		}
	}()
	if err := b.CopySizes(old); err == nil {
		t.Errorf("old block map lists more blocks than the file has: accepted")
	}
}
