package comdoc

// Replay drivers for the compound-file reader obligations (C11): sector chains and table sizes come from
// the file and must be validated before they are used as indices, loop bounds or allocation sizes.
import (
	"bytes"
	"encoding/binary"
	"runtime"
	"testing"
	"time"
)

type cfbImage struct {
	hdr     Header
	sectors map[int][]byte
	nsect   int
}

func newImage(nsect int) *cfbImage {
	im := &cfbImage{sectors: map[int][]byte{}, nsect: nsect}
	copy(im.hdr.Magic[:], fileMagic)
	im.hdr.ByteOrder = byteOrderMarker
	im.hdr.SectorSize = 9
	im.hdr.ShortSectorSize = 6
	im.hdr.MinStdStreamSize = 4096
	im.hdr.SATSectors = 1
	im.hdr.DirNextSector = 1
	im.hdr.SSATNextSector = SecIDEndOfChain
	im.hdr.MSATNextSector = SecIDEndOfChain
	for i := range im.hdr.MSAT {
		im.hdr.MSAT[i] = SecIDFree
	}
	im.hdr.MSAT[0] = 0
	return im
}

func (im *cfbImage) sat(entries map[int]SecID) {
	tbl := make([]SecID, 128)
	for i := range tbl {
		tbl[i] = SecIDFree
	}
	tbl[0] = SecIDSAT
	for k, v := range entries {
		tbl[k] = v
	}
	var b bytes.Buffer
	binary.Write(&b, binary.LittleEndian, tbl)
	im.sectors[0] = b.Bytes()
}

func (im *cfbImage) dir(sector int) {
	ents := make([]RawDirEnt, 4)
	ents[0].Type = DirRoot
	ents[0].NameLength = 2
	ents[0].LeftChild, ents[0].RightChild, ents[0].StorageRoot = -1, -1, -1
	ents[0].NextSector = SecIDEndOfChain
	var b bytes.Buffer
	binary.Write(&b, binary.LittleEndian, ents)
	im.sectors[sector] = b.Bytes()
}

func (im *cfbImage) bytes() []byte {
	var b bytes.Buffer
	binary.Write(&b, binary.LittleEndian, im.hdr)
	for i := 0; i < im.nsect; i++ {
		s := im.sectors[i]
		if s == nil {
			s = make([]byte, 512)
		}
		b.Write(s)
	}
	return b.Bytes()
}

// open runs the reader with a deadline; a reader that is still busy after it has most likely entered a
// cycle of the sector chain
func open(t *testing.T, name string, data []byte) {
	done := make(chan interface{}, 1)
	go func() {
		defer func() { done <- recover() }()
		_, _ = ReadFile(bytes.NewReader(data))
	}()
	select {
	case r := <-done:
		if r != nil {
			t.Errorf("%s: reader panicked: %v", name, r)
		}
	case <-time.After(400 * time.Millisecond):
		t.Fatalf("%s: reader does not terminate on a %d-byte file", name, len(data))
	}
}

func TestReplayCompoundFileReaderNoPanic(t *testing.T) {
	{ // directory chain continues in a sector the allocation table does not cover
		im := newImage(210)
		im.sat(map[int]SecID{1: 200})
		im.dir(1)
		im.dir(200)
		open(t, "directory chain leaves the allocation table", im.bytes())
	}
	{ // short-sector table chain starts beyond the allocation table
		im := newImage(210)
		im.sat(map[int]SecID{1: SecIDEndOfChain})
		im.dir(1)
		im.hdr.SSATNextSector = 200
		im.hdr.SSATSectorCount = 2
		open(t, "short table chain leaves the allocation table", im.bytes())
	}
	{ // table sizes taken from the header
		im := newImage(3)
		im.sat(map[int]SecID{1: SecIDEndOfChain})
		im.dir(1)
		im.hdr.SATSectors = 1 << 19
		data := im.bytes()
		var before, after runtime.MemStats
		runtime.ReadMemStats(&before)
		open(t, "allocation table size from the header", data)
		runtime.ReadMemStats(&after)
		if grown := after.TotalAlloc - before.TotalAlloc; grown > 32<<20 {
			t.Errorf("allocation table size from the header: %d bytes allocated while reading a %d-byte file", grown, len(data))
		}
	}
}

func TestReplayCompoundFileReaderTerminates(t *testing.T) {
	{ // the directory chain loops
		im := newImage(3)
		im.sat(map[int]SecID{1: 1})
		im.dir(1)
		open(t, "directory chain loops", im.bytes())
	}
}

func TestReplayCompoundFileMsatChainTerminates(t *testing.T) {
	// the chain of extra allocation-table-index sectors loops
	im := newImage(3)
	im.sat(map[int]SecID{1: SecIDEndOfChain})
	im.dir(1)
	im.hdr.MSATNextSector = 2
	tbl := make([]SecID, 128)
	for i := range tbl {
		tbl[i] = SecIDFree
	}
	tbl[127] = 2
	var b bytes.Buffer
	binary.Write(&b, binary.LittleEndian, tbl)
	im.sectors[2] = b.Bytes()
	open(t, "index sector chain loops", im.bytes())
}

// The sector size exponent comes from the header; the format allows 9 (version 3) and 12 (version 4).
func TestReplayCompoundFileSectorSizeFromTheHeader(t *testing.T) {
	im := newImage(1)
	im.hdr.SectorSize = 28
	data := im.bytes()
	var before, after runtime.MemStats
	runtime.ReadMemStats(&before)
	open(t, "sector size 2^28", data)
	runtime.ReadMemStats(&after)
	if grown := after.TotalAlloc - before.TotalAlloc; grown > 32<<20 {
		t.Errorf("sector size 2^28: %d bytes allocated while reading a %d-byte file", grown, len(data))
	}
}
