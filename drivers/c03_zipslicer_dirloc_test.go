package zipslicer

// Replay driver for the tar-wrapped ZIP reader (C03/C17): the position of the central directory is the size of
// the archive member minus the size of the directory member of the upload.
import (
	"archive/tar"
	"archive/zip"
	"bytes"
	"testing"
)

func TestReplayDirectoryMemberLongerThanTheArchive(t *testing.T) {
	var zb bytes.Buffer
	zw := zip.NewWriter(&zb)
	zw.Close() // empty archive: 22 bytes of end record
	z := zb.Bytes()
	// a directory member that is a valid (empty) directory followed by a long archive comment's worth of bytes
	cd := append(append([]byte{}, z...), make([]byte, 500)...)
	var tb bytes.Buffer
	tw := tar.NewWriter(&tb)
	tw.WriteHeader(&tar.Header{Name: TarMemberCD, Mode: 0644, Size: int64(len(cd))})
	tw.Write(cd)
	tw.WriteHeader(&tar.Header{Name: TarMemberZip, Mode: 0644, Size: int64(len(z))})
	tw.Write(z)
	tw.Close()
	d, err := ReadZipTar(&tb)
	if err != nil {
		return
	}
	if d.DirLoc < 0 || d.DirLoc > d.Size {
		t.Errorf("a %d-byte archive is reported to have its central directory at offset %d", d.Size, d.DirLoc)
	}
}
