package certloader

// Replay driver for parseCertificatesDer#slice[0]: short DER input must give an error, not a panic.
import "testing"

func TestReplayParseShortDer(t *testing.T) {
	for _, in := range [][]byte{{0x30, 0x00}, {0x30}, {0x30, 0x03, 0x02, 0x01, 0x01}} {
		func() {
			defer func() {
				if r := recover(); r != nil {
					t.Errorf("ParseX509Certificates(% x) panicked: %v", in, r)
				}
			}()
			_, _ = ParseX509Certificates(in)
		}()
	}
}
