package zipslicer

// Bounded stand-in (labelled bounded, never counted as proved) for the clause of C03/C17 that contracts cannot
// state: "an independent reader sees a well-formed archive with the same payload". For every archive of up to N
// members (stored and deflated, with and without data descriptors) and every subset of members deleted through
// the real Mangle + MakePatch + binpatch Apply, with one member added, the result must open with archive/zip and
// every kept member must read back byte for byte.

import (
	"archive/zip"
	"bytes"
	"encoding/binary"
	"fmt"
	"io"
	"os"
	"path/filepath"
	"strconv"
	"testing"
	"time"
)

func TestBoundedMangleKeepsAnIndependentReaderHappy(t *testing.T) {
	maxMembers := 4
	if v, err := strconv.Atoi(os.Getenv("RELICVC_BOUND")); err == nil && v > 0 {
		maxMembers = v
	}
	cases := 0
	dir := t.TempDir()
	for n := 1; n <= maxMembers; n++ {
		for style := 0; style < 2; style++ {
			// build the input with the standard library
			var zb bytes.Buffer
			zw := zip.NewWriter(&zb)
			want := map[string][]byte{}
			for i := 0; i < n; i++ {
				name := fmt.Sprintf("dir/member%d.bin", i)
				body := bytes.Repeat([]byte{byte('a' + i)}, 10+300*i)
				method := zip.Store
				if (i+style)%2 == 1 {
					method = zip.Deflate
				}
				w, err := zw.CreateHeader(&zip.FileHeader{Name: name, Method: method})
				if err != nil {
					t.Fatal(err)
				}
				w.Write(body)
				want[name] = body
			}
			zw.Close()
			for _, gap := range []int{0, 37} {
				input := zb.Bytes()
				if gap > 0 {
					// non-archive bytes between the last member and the central directory
					eocd := bytes.LastIndex(input, []byte("PK\x05\x06"))
					cdoff := int(binary.LittleEndian.Uint32(input[eocd+16:]))
					withGap := append(append(append([]byte{}, input[:cdoff]...), bytes.Repeat([]byte{0xee}, gap)...), input[cdoff:]...)
					binary.LittleEndian.PutUint32(withGap[eocd+gap+16:], uint32(cdoff+gap))
					input = withGap
				}
				for mask := 0; mask < 1<<n; mask++ {
					cases++
					in := filepath.Join(dir, "in.zip")
					if err := os.WriteFile(in, input, 0o600); err != nil {
						t.Fatal(err)
					}
					f, err := os.Open(in)
					if err != nil {
						t.Fatal(err)
					}
					d, err := Read(f, int64(len(input)))
					if err != nil {
						t.Fatal(err)
					}
					idx := 0
					m, err := d.Mangle(func(mf *MangleFile) error {
						if mask&(1<<idx) != 0 {
							mf.Delete()
						}
						idx++
						return nil
					})
					if err != nil {
						t.Fatalf("n=%d mask=%b: Mangle: %v", n, mask, err)
					}
					added := []byte("added by the signer")
					if err := m.NewFile("META-INF/added.txt", added); err != nil {
						t.Fatalf("n=%d mask=%b: NewFile: %v", n, mask, err)
					}
					patch, err := m.MakePatch(false)
					if err != nil {
						t.Fatalf("n=%d mask=%b: MakePatch: %v", n, mask, err)
					}
					out := filepath.Join(dir, "out.zip")
					if err := patch.Apply(f, out); err != nil {
						t.Fatalf("n=%d mask=%b: Apply: %v", n, mask, err)
					}
					f.Close()
					zr, err := zip.OpenReader(out)
					if err != nil {
						t.Fatalf("n=%d style=%d mask=%b: independent reader refuses the result: %v", n, style, mask, err)
					}
					got := map[string][]byte{}
					for _, zf := range zr.File {
						r, err := zf.Open()
						if err != nil {
							t.Fatalf("n=%d mask=%b: %s: %v", n, mask, zf.Name, err)
						}
						b, err := io.ReadAll(r)
						if err != nil {
							t.Fatalf("n=%d mask=%b: %s: %v", n, mask, zf.Name, err)
						}
						r.Close()
						got[zf.Name] = b
					}
					zr.Close()
					for i := 0; i < n; i++ {
						name := fmt.Sprintf("dir/member%d.bin", i)
						b, present := got[name]
						if mask&(1<<i) != 0 {
							if present {
								t.Fatalf("n=%d mask=%b: deleted member %s is still listed", n, mask, name)
							}
						} else if !present || !bytes.Equal(b, want[name]) {
							t.Fatalf("n=%d style=%d mask=%b: kept member %s does not read back unchanged", n, style, mask, name)
						}
					}
					if !bytes.Equal(got["META-INF/added.txt"], added) {
						t.Fatalf("n=%d mask=%b: added member does not read back", n, mask)
					}
					os.Remove(out)
				}
			}
		}
	}
	_ = time.Now
	fmt.Printf("BOUNDED-CASES %d\n", cases)
}
