package signappx

// Replay driver for the content-type table obligations (C11): a package member without a file extension
// is perfectly legal and must get an override entry, not crash the signer.
import "testing"

func TestReplayContentTypesMemberWithoutExtension(t *testing.T) {
	for _, name := range []string{"LICENSE", "dir/README", "weird.", "a.txt"} {
		func() {
			defer func() {
				if r := recover(); r != nil {
					t.Errorf("member %q: content types panicked: %v", name, r)
				}
			}()
			c := NewContentTypes()
			c.Add(name)
			if got := c.Find(name); got == "" {
				t.Errorf("member %q: no content type recorded", name)
			}
		}()
	}
}
