package authenticode

// Replay driver for the PE header reader obligations (C11): header fields come from the file and must be
// validated before they are used as slice bounds or divisors.
import (
	"bytes"
	"crypto"
	_ "crypto/sha256"
	"encoding/binary"
	"runtime"
	"testing"
)

func peImage(sizeOfOptHeader uint16, fileAlign uint32, nSections uint16) []byte {
	return peImageEx(sizeOfOptHeader, fileAlign, nSections, 1024, 512)
}

func peImageEx(sizeOfOptHeader uint16, fileAlign uint32, nSections uint16, sizeOfHeaders uint32, rawSize uint32) []byte {
	b := make([]byte, 64)
	b[0], b[1] = 'M', 'Z'
	binary.LittleEndian.PutUint32(b[0x3c:], 64)
	b = append(b, 'P', 'E', 0, 0)
	coff := make([]byte, 20)
	binary.LittleEndian.PutUint16(coff[0:], 0x14c)
	binary.LittleEndian.PutUint16(coff[2:], nSections)
	binary.LittleEndian.PutUint16(coff[16:], sizeOfOptHeader)
	b = append(b, coff...)
	opt := make([]byte, sizeOfOptHeader)
	if len(opt) >= 224 {
		binary.LittleEndian.PutUint16(opt[0:], 0x10b)
		binary.LittleEndian.PutUint32(opt[36:], fileAlign)
		binary.LittleEndian.PutUint32(opt[60:], sizeOfHeaders) // SizeOfHeaders
		binary.LittleEndian.PutUint32(opt[92:], 16)   // NumberOfRvaAndSizes
	}
	b = append(b, opt...)
	for i := 0; i < int(nSections); i++ {
		sec := make([]byte, 40)
		binary.LittleEndian.PutUint32(sec[16:], rawSize)                       // SizeOfRawData
		binary.LittleEndian.PutUint32(sec[20:], sizeOfHeaders+uint32(i)*rawSize) // PointerToRawData
		b = append(b, sec...)
	}
	want := int(sizeOfHeaders)
	if rawSize <= 65536 {
		want += int(nSections) * int(rawSize)
	}
	b = append(b, make([]byte, want-len(b))...)
	return b
}

func TestReplayPEHeaderNoPanic(t *testing.T) {
	cases := map[string][]byte{
		"optional header of 0 bytes":     peImage(0, 512, 0),
		"optional header of 1 byte":      peImage(1, 512, 0),
		"file alignment 0, two sections": peImage(224, 0, 2),
	}
	for name, img := range cases {
		func() {
			defer func() {
				if r := recover(); r != nil {
					t.Errorf("%s: DigestPE panicked: %v", name, r)
				}
			}()
			_, _ = DigestPE(bytes.NewReader(img), crypto.SHA256, false)
		}()
	}
}

// Page hashing: the first page is the headers padded to a page, and the table of page hashes must not be
// sized by what the section table merely claims.
func TestReplayPEPageHashNoPanicBoundedAllocation(t *testing.T) {
	big := peImageEx(224, 512, 1, 8192, 512) // headers of two pages
	func() {
		defer func() {
			if r := recover(); r != nil {
				t.Errorf("headers larger than a page: DigestPE panicked: %v", r)
			}
		}()
		_, _ = DigestPE(bytes.NewReader(big), crypto.SHA256, true)
	}()
	// 2 KiB file whose only section claims 4 GiB - 4 KiB of raw data
	liar := peImageEx(224, 512, 1, 1024, 0xFFFFF000)
	var before, after runtime.MemStats
	runtime.ReadMemStats(&before)
	func() {
		defer func() {
			if r := recover(); r != nil {
				t.Errorf("oversized section: DigestPE panicked: %v", r)
			}
		}()
		_, _ = DigestPE(bytes.NewReader(liar), crypto.SHA256, true)
	}()
	runtime.ReadMemStats(&after)
	if grown := after.TotalAlloc - before.TotalAlloc; grown > 8<<20 {
		t.Errorf("oversized section: %d bytes allocated while reading a %d-byte image", grown, len(liar))
	}
}

// the certificate table buffer of the verifier: its size is a field of the data directory
func TestReplayVerifyImageWithAnImplausibleCertificateTableSize(t *testing.T) {
	img := peImage(224, 512, 1)
	// data directory entry 4 (certificate table) of a PE32 optional header: offset 96 + 8*4 into the header
	opt := 64 + 4 + 20
	binary.LittleEndian.PutUint32(img[opt+96+32:], uint32(len(img))) // table starts at the end of the file
	binary.LittleEndian.PutUint32(img[opt+96+36:], 1<<28)            // and claims 256 MiB
	var before, after runtime.MemStats
	runtime.ReadMemStats(&before)
	func() {
		defer func() {
			if r := recover(); r != nil {
				t.Errorf("VerifyPE panicked: %v", r)
			}
		}()
		if _, err := VerifyPE(bytes.NewReader(img), true); err == nil {
			t.Errorf("certificate table of 256 MiB in a %d-byte file: accepted", len(img))
		}
	}()
	runtime.ReadMemStats(&after)
	if grown := after.TotalAlloc - before.TotalAlloc; grown > 16<<20 {
		t.Errorf("%d bytes allocated while verifying a %d-byte image", grown, len(img))
	}
}
