package authenticode

// Replay driver for the PE header reader obligations (C11): header fields come from the file and must be
// validated before they are used as slice bounds or divisors.
import (
	"bytes"
	"crypto"
	_ "crypto/sha256"
	"encoding/binary"
	"testing"
)

func peImage(sizeOfOptHeader uint16, fileAlign uint32, nSections uint16) []byte {
	b := make([]byte, 64)
	b[0], b[1] = 'M', 'Z'
	binary.LittleEndian.PutUint32(b[0x3c:], 64)
	b = append(b, 'P', 'E', 0, 0)
	coff := make([]byte, 20)
	binary.LittleEndian.PutUint16(coff[0:], 0x14c)
	binary.LittleEndian.PutUint16(coff[2:], nSections)
	binary.LittleEndian.PutUint16(coff[16:], sizeOfOptHeader)
	b = append(b, coff...)
	opt := make([]byte, sizeOfOptHeader)
	if len(opt) >= 224 {
		binary.LittleEndian.PutUint16(opt[0:], 0x10b)
		binary.LittleEndian.PutUint32(opt[36:], fileAlign)
		binary.LittleEndian.PutUint32(opt[60:], 1024) // SizeOfHeaders
		binary.LittleEndian.PutUint32(opt[92:], 16)   // NumberOfRvaAndSizes
	}
	b = append(b, opt...)
	for i := 0; i < int(nSections); i++ {
		sec := make([]byte, 40)
		binary.LittleEndian.PutUint32(sec[16:], 512)               // SizeOfRawData
		binary.LittleEndian.PutUint32(sec[20:], 1024+uint32(i)*512) // PointerToRawData
		b = append(b, sec...)
	}
	for len(b) < 1024+int(nSections)*512 {
		b = append(b, 0)
	}
	return b
}

func TestReplayPEHeaderNoPanic(t *testing.T) {
	cases := map[string][]byte{
		"optional header of 0 bytes":     peImage(0, 512, 0),
		"optional header of 1 byte":      peImage(1, 512, 0),
		"file alignment 0, two sections": peImage(224, 0, 2),
	}
	for name, img := range cases {
		func() {
			defer func() {
				if r := recover(); r != nil {
					t.Errorf("%s: DigestPE panicked: %v", name, r)
				}
			}()
			_, _ = DigestPE(bytes.NewReader(img), crypto.SHA256, false)
		}()
	}
}
