package csblob

// Replay driver for the page verifier (C11): the page size exponent comes from the code directory of the
// signature being verified.
import (
	"bytes"
	"crypto"
	_ "crypto/sha256"
	"runtime"
	"testing"
)

func TestReplayVerifyPagesPageSizeFromTheBlob(t *testing.T) {
	for _, log2 := range []uint8{30, 63, 200} {
		dir := &CodeDirectory{HashFunc: crypto.SHA256, CodeHashes: [][]byte{make([]byte, 32)}}
		dir.Header.PageSizeLog2 = log2
		dir.Header.CodeLimit = 10
		dir.Header.HashType = HashSHA256
		sig := &SigBlob{Directories: []*CodeDirectory{dir}}
		var before, after runtime.MemStats
		runtime.ReadMemStats(&before)
		func() {
			defer func() {
				if r := recover(); r != nil {
					t.Errorf("page size 2^%d: VerifyPages panicked: %v", log2, r)
				}
			}()
			_ = sig.VerifyPages(bytes.NewReader(make([]byte, 10)))
		}()
		runtime.ReadMemStats(&after)
		if grown := after.TotalAlloc - before.TotalAlloc; grown > 64<<20 {
			t.Errorf("page size 2^%d: %d bytes allocated to verify 10 bytes of code", log2, grown)
		}
	}
}
