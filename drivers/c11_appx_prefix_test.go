package signappx

// Replay driver for verifyMeta (C11): a signed package with data in front of it whose end record still states the old
// directory offset. archive/zip compensates for the prefix and reads (and verifies) every member; zipslicer reads the
// directory at the stated offset, where the prefix holds an empty end record, and finds no members at all - so the
// index of the signature member stays -1.
import (
	"bytes"
	"encoding/binary"
	"os"
	"testing"
)

func TestReplayPackageBehindAPrefix(t *testing.T) {
	inner, err := os.ReadFile("../../functest/packages/App1_1.0.3.0_x64.appx")
	if err != nil {
		t.Skip("fixture not present: ", err)
	}
	if _, err := Verify(bytes.NewReader(inner), int64(len(inner)), false); err != nil {
		t.Skip("fixture does not verify: ", err)
	}
	// the fixture is ZIP64: end record <- locator <- zip64 end record, no archive comment
	end := inner[len(inner)-22:]
	loc := inner[len(inner)-42 : len(inner)-22]
	if binary.LittleEndian.Uint32(end) != 0x06054b50 || binary.LittleEndian.Uint32(loc) != 0x07064b50 {
		t.Skip("fixture is not a ZIP64 archive without comment")
	}
	end64At := int(binary.LittleEndian.Uint64(loc[8:]))
	cdOffset := int(binary.LittleEndian.Uint64(inner[end64At+48:]))
	prefix := make([]byte, cdOffset+22)
	binary.LittleEndian.PutUint32(prefix[cdOffset:], 0x06054b50)
	blob := append(prefix, inner...)
	// the locator is outside every digest that is compared before verifyMeta: point it at the moved zip64 end record
	binary.LittleEndian.PutUint64(blob[len(blob)-42+8:], uint64(end64At+len(prefix)))
	defer func() {
		if r := recover(); r != nil {
			t.Errorf("package behind a prefix: Verify panicked: %v", r)
		}
	}()
	_, err = Verify(bytes.NewReader(blob), int64(len(blob)), false)
	t.Log("Verify returned: ", err)
}
