package macho

// Replay driver for the universal-binary verifier (C02): the Info.plist and the resource manifest of a bundle are
// protected by special slots of every slice's code directory. The bundle verifier hands them to verifyFat, which
// must pass them on for every slice.
import (
	"bytes"
	"context"
	"crypto"
	"crypto/ecdsa"
	"crypto/elliptic"
	"crypto/rand"
	_ "crypto/sha256"
	"crypto/x509"
	"crypto/x509/pkix"
	"encoding/binary"
	"math/big"
	"os"
	"path/filepath"
	"testing"
	"time"

	"github.com/sassoftware/relic/v8/lib/certloader"
	"github.com/sassoftware/relic/v8/lib/fruit/csblob"
	"github.com/sassoftware/relic/v8/lib/fruit/machos"
	"github.com/sassoftware/relic/v8/signers"
)

func signSlice(t *testing.T, slice, plist, res []byte, cert *certloader.Certificate) []byte {
	params := &csblob.SignatureParams{HashFunc: crypto.SHA256, SigningIdentity: "x", InfoPlist: plist, Resources: res}
	patch, _, err := machos.Sign(context.Background(), bytes.NewReader(slice), cert, params)
	if err != nil {
		t.Skip("cannot sign slice: ", err)
	}
	dir := t.TempDir()
	in := filepath.Join(dir, "in")
	if err := os.WriteFile(in, slice, 0600); err != nil {
		t.Fatal(err)
	}
	f, err := os.Open(in)
	if err != nil {
		t.Fatal(err)
	}
	defer f.Close()
	out := filepath.Join(dir, "out")
	if err := patch.Apply(f, out); err != nil {
		t.Fatal(err)
	}
	signed, err := os.ReadFile(out)
	if err != nil {
		t.Fatal(err)
	}
	return signed
}

func TestReplayUniversalBinaryWithAlteredBundleFiles(t *testing.T) {
	fat, err := os.ReadFile("../../functest/packages/fatfile.app/Contents/MacOS/dummy")
	if err != nil {
		t.Skip("fixture not present: ", err)
	}
	plist, err := os.ReadFile("../../functest/packages/fatfile.app/Contents/Info.plist")
	if err != nil {
		t.Skip(err)
	}
	res, err := os.ReadFile("../../functest/packages/fatfile.app/Contents/_CodeSignature/CodeResources")
	if err != nil {
		t.Skip(err)
	}
	key, err := ecdsa.GenerateKey(elliptic.P256(), rand.Reader)
	if err != nil {
		t.Fatal(err)
	}
	tmpl := &x509.Certificate{SerialNumber: big.NewInt(1), Subject: pkix.Name{CommonName: "t"}, NotBefore: time.Now().Add(-time.Hour), NotAfter: time.Now().Add(time.Hour)}
	der, err := x509.CreateCertificate(rand.Reader, tmpl, tmpl, &key.PublicKey, key)
	if err != nil {
		t.Fatal(err)
	}
	leaf, _ := x509.ParseCertificate(der)
	cert := &certloader.Certificate{Leaf: leaf, Certificates: []*x509.Certificate{leaf}, PrivateKey: key}
	// take the universal binary apart, sign every slice with the bundle files bound, put it together again
	be := binary.BigEndian
	if be.Uint32(fat) != 0xcafebabe {
		t.Skip("fixture is not a universal binary")
	}
	narch := int(be.Uint32(fat[4:]))
	var out bytes.Buffer
	hdr := make([]byte, 8+20*narch)
	copy(hdr, fat[:8+20*narch])
	out.Write(hdr)
	for i := 0; i < narch; i++ {
		e := fat[8+20*i:]
		off, size := be.Uint32(e[8:]), be.Uint32(e[12:])
		signed := signSlice(t, fat[off:off+size], plist, res, cert)
		for out.Len()%16384 != 0 {
			out.WriteByte(0)
		}
		be.PutUint32(hdr[8+20*i+8:], uint32(out.Len()))
		be.PutUint32(hdr[8+20*i+12:], uint32(len(signed)))
		out.Write(signed)
	}
	blob := out.Bytes()
	copy(blob, hdr)
	// sanity: verifies with the genuine bundle files
	sigs, err := verifyFat(bytes.NewReader(blob), plist, res, signers.VerifyOpts{})
	if err != nil || len(sigs) != narch {
		t.Skip("rebuilt universal binary does not verify: ", err)
	}
	badPlist := append([]byte(nil), plist...)
	badPlist[len(badPlist)/2] ^= 1
	if _, err := verifyFat(bytes.NewReader(blob), badPlist, res, signers.VerifyOpts{}); err == nil {
		t.Errorf("universal binary: altered Info.plist accepted")
	}
	badRes := append([]byte(nil), res...)
	badRes[len(badRes)/2] ^= 1
	if _, err := verifyFat(bytes.NewReader(blob), plist, badRes, signers.VerifyOpts{}); err == nil {
		t.Errorf("universal binary: altered resource manifest accepted")
	}
}
