package worker

// Replay driver (scenario) for (*WorkerToken).doRetry ensures[never_nil_nil] /
// ensures[success_only_if_an_attempt_succeeded]: doRetry must never return (nil, nil), i.e. report
// success although no attempt succeeded. Configurations tried: negative retry limit (loop body never
// runs) and a worker that fails every attempt with a transient error.

import (
	"io"
	"net/http"
	"net/http/httptest"
	"strings"
	"testing"

	"github.com/sassoftware/relic/v8/config"
)

func TestReplayDoRetryNeverNilNil(t *testing.T) {
	srv := httptest.NewServer(http.HandlerFunc(func(w http.ResponseWriter, r *http.Request) {
		w.WriteHeader(http.StatusServiceUnavailable)
	}))
	defer srv.Close()
	for _, retries := range []int{-1, -5, 1} {
		tok := &WorkerToken{tconf: &config.TokenConfig{Retries: retries, Timeout: 2}}
		req, err := http.NewRequest("POST", srv.URL+"/ping", nil)
		if err != nil {
			t.Fatal(err)
		}
		req.GetBody = func() (io.ReadCloser, error) { return io.NopCloser(strings.NewReader("{}")), nil }
		resp, err := tok.doRetry(req)
		if resp == nil && err == nil {
			t.Fatalf("doRetry returned (nil, nil) with tconf.Retries=%d: success reported although no attempt succeeded", retries)
		}
	}
}
