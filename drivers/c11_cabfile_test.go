package cabfile

// Replay driver for the cabinet reader obligations (C11): buffer sizes must follow the bytes actually read,
// not the sizes the header claims.
import (
	"bytes"
	"encoding/binary"
	"runtime"
	"testing"
)

func TestReplayCabinetAllocationBoundedByInput(t *testing.T) {
	cases := map[string][]byte{}
	{
		var b bytes.Buffer
		binary.Write(&b, binary.LittleEndian, Header{Magic: Magic, TotalSize: 1 << 28, OffsetFiles: 1 << 28})
		cases["header claims 256 MiB of folder headers"] = b.Bytes()
	}
	{
		var b bytes.Buffer
		binary.Write(&b, binary.LittleEndian, Header{Magic: Magic, TotalSize: 60, OffsetFiles: 60, Flags: FlagReservePresent})
		binary.Write(&b, binary.LittleEndian, ReserveHeader{HeaderSize: signatureHeaderSize})
		binary.Write(&b, binary.LittleEndian, SignatureHeader{CabinetSize: 60, SignatureSize: 1 << 28})
		cases["signature header claims a 256 MiB signature"] = b.Bytes()
	}
	for name, data := range cases {
		var before, after runtime.MemStats
		runtime.ReadMemStats(&before)
		func() {
			defer func() {
				if r := recover(); r != nil {
					t.Errorf("%s: Digest panicked: %v", name, r)
				}
			}()
			_, _ = Digest(bytes.NewReader(data), 0)
		}()
		runtime.ReadMemStats(&after)
		if grown := after.TotalAlloc - before.TotalAlloc; grown > 16<<20 {
			t.Errorf("%s: %d bytes allocated while reading a %d-byte file", name, grown, len(data))
		}
	}
}
