package vsix

// Replay driver for the VSIX signature builder (C11): member names come from the uploaded archive.
import (
	"archive/zip"
	"bytes"
	"crypto"
	"crypto/ecdsa"
	"crypto/elliptic"
	"crypto/rand"
	_ "crypto/sha256"
	"crypto/x509"
	"crypto/x509/pkix"
	"math/big"
	"os"
	"path/filepath"
	"testing"
	"time"

	"github.com/sassoftware/relic/v8/lib/certloader"
	"github.com/sassoftware/relic/v8/lib/zipslicer"
	"github.com/sassoftware/relic/v8/signers"
)

func TestReplayMemberWithoutExtension(t *testing.T) {
	var zb bytes.Buffer
	zw := zip.NewWriter(&zb)
	for _, name := range []string{"LICENSE", "extension.vsixmanifest"} {
		w, err := zw.Create(name)
		if err != nil {
			t.Fatal(err)
		}
		w.Write([]byte("hello"))
	}
	zw.Close()
	p := filepath.Join(t.TempDir(), "x.vsix")
	if err := os.WriteFile(p, zb.Bytes(), 0o600); err != nil {
		t.Fatal(err)
	}
	f, err := os.Open(p)
	if err != nil {
		t.Fatal(err)
	}
	defer f.Close()
	var tb bytes.Buffer
	if err := zipslicer.ZipToTar(f, &tb); err != nil {
		t.Fatal(err)
	}
	m, err := mangleZip(&tb, crypto.SHA256)
	if err != nil {
		t.Fatal(err)
	}
	key, err := ecdsa.GenerateKey(elliptic.P256(), rand.Reader)
	if err != nil {
		t.Fatal(err)
	}
	tmpl := &x509.Certificate{SerialNumber: big.NewInt(1), Subject: pkix.Name{CommonName: "t"}, NotBefore: time.Now().Add(-time.Hour), NotAfter: time.Now().Add(time.Hour)}
	der, err := x509.CreateCertificate(rand.Reader, tmpl, tmpl, &key.PublicKey, key)
	if err != nil {
		t.Fatal(err)
	}
	leaf, err := x509.ParseCertificate(der)
	if err != nil {
		t.Fatal(err)
	}
	cert := &certloader.Certificate{Leaf: leaf, Certificates: []*x509.Certificate{leaf}, PrivateKey: key}
	defer func() {
		if r := recover(); r != nil {
			t.Errorf("archive member without a file extension: makeSignature panicked: %v", r)
		}
	}()
	if _, err := m.makeSignature(cert, signers.SignOpts{Hash: crypto.SHA256, Time: time.Now()}, false); err != nil {
		t.Logf("refused: %v", err)
	}
}
