package redblack

// Bounded stand-in (labelled bounded, never counted as proved): every insertion order of up to
// maxKeys distinct keys, on the real Insert, must give a search tree that satisfies the red-black
// rules (root black, no red node with a red child, equal black height on every path) and contains
// exactly the inserted keys.

import (
	"fmt"
	"os"
	"strconv"
	"testing"
)

func lessInt(a, b interface{}) bool { return a.(int) < b.(int) }

func checkNode(n *Node, lo, hi int) (blackHeight int, count int, err error) {
	if n == nil {
		return 1, 0, nil
	}
	k := n.Item.(int)
	if k <= lo || k >= hi {
		return 0, 0, fmt.Errorf("key %d violates search-tree order (bounds %d..%d)", k, lo, hi)
	}
	if n.Red && (n.Children[0].isRed() || n.Children[1].isRed()) {
		return 0, 0, fmt.Errorf("red node %d has a red child", k)
	}
	lh, lc, err := checkNode(n.Children[0], lo, k)
	if err != nil {
		return 0, 0, err
	}
	rh, rc, err := checkNode(n.Children[1], k, hi)
	if err != nil {
		return 0, 0, err
	}
	if lh != rh {
		return 0, 0, fmt.Errorf("black heights differ below key %d: left %d, right %d", k, lh, rh)
	}
	if !n.Red {
		lh++
	}
	return lh, lc + rc + 1, nil
}

func permute(a []int, k int, f func([]int) bool) bool {
	if k == len(a) {
		return f(a)
	}
	for i := k; i < len(a); i++ {
		a[k], a[i] = a[i], a[k]
		if !permute(a, k+1, f) {
			return false
		}
		a[k], a[i] = a[i], a[k]
	}
	return true
}

func TestBoundedRedBlackInsert(t *testing.T) {
	maxKeys := 7
	if v, err := strconv.Atoi(os.Getenv("RELICVC_BOUND")); err == nil && v > 0 {
		maxKeys = v
	}
	cases := 0
	for n := 1; n <= maxKeys; n++ {
		keys := make([]int, n)
		for i := range keys {
			keys[i] = i + 1
		}
		ok := permute(keys, 0, func(order []int) bool {
			cases++
			tree := New(lessInt)
			for _, k := range order {
				tree.Insert(k)
			}
			if tree.Root.isRed() {
				t.Errorf("insertion order %v: root is red", order)
				return false
			}
			_, count, err := checkNode(tree.Root, 0, n+1)
			if err == nil && (count != n || len(tree.Nodes()) != n) {
				err = fmt.Errorf("tree holds %d nodes (Nodes(): %d), expected %d", count, len(tree.Nodes()), n)
			}
			if err != nil {
				t.Errorf("insertion order %v: %v", order, err)
				return false
			}
			return true
		})
		if !ok {
			break
		}
	}
	t.Logf("BOUNDED-CASES %d (all insertion orders of 1..%d keys)", cases, maxKeys)
}
