package server

// Replay driver (scenario) for (*Server).healthCheckLoop#inv-step[loop0.no_spin_after_close]:
// once the Closed channel is closed the loop must end.

import (
	"testing"
	"time"

	"github.com/sassoftware/relic/v8/config"
	"github.com/sassoftware/relic/v8/token"
)

func TestReplayHealthLoopEndsOnClose(t *testing.T) {
	closed := make(chan bool)
	s := &Server{
		Config: &config.Config{Server: &config.ServerConfig{TokenCheckInterval: 3600, TokenCheckFailures: 3, TokenCheckTimeout: 1}},
		Closed: closed,
		tokens: map[string]token.Token{},
	}
	close(closed)
	done := make(chan struct{})
	go func() { s.healthCheckLoop(); close(done) }()
	select {
	case <-done:
	case <-time.After(2 * time.Second):
		t.Fatal("healthCheckLoop is still running 2s after Closed was closed (it re-enters the select on the closed channel)")
	}
}
