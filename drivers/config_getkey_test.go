package config

// Replay driver for (*Config).GetKey nopanic obligations: a dangling alias must yield an error,
// not a nil-pointer panic.

import "testing"

func TestReplayGetKeyDanglingAlias(t *testing.T) {
	cases := map[string]map[string]*KeyConfig{
		"dangling alias":  {"a": {Alias: "missing"}},
		"alias of alias":  {"a": {Alias: "b"}, "b": {Alias: "c"}, "c": {Token: "t"}},
		"alias to itself": {"a": {Alias: "a"}},
		"no token":        {"a": {}},
	}
	for name, keys := range cases {
		func() {
			defer func() {
				if r := recover(); r != nil {
					t.Errorf("%s: GetKey panicked instead of returning an error: %v", name, r)
				}
			}()
			c := &Config{Keys: keys}
			kc, err := c.GetKey("a")
			if err == nil && (kc == nil || kc.Token == "") {
				t.Errorf("%s: GetKey returned no error and an unusable key %v", name, kc)
			}
		}()
	}
}
