package dmg

// Replay driver for the disk image signer (C03): the bundle size comes from the trailer of the uploaded image.
import (
	"bytes"
	"context"
	"crypto"
	"crypto/ecdsa"
	"crypto/elliptic"
	"crypto/rand"
	_ "crypto/sha256"
	"crypto/x509"
	"crypto/x509/pkix"
	"encoding/binary"
	"math/big"
	"testing"
	"time"

	"github.com/sassoftware/relic/v8/lib/certloader"
)

func TestReplaySignImageShorterThanItsTrailerSays(t *testing.T) {
	key, err := ecdsa.GenerateKey(elliptic.P256(), rand.Reader)
	if err != nil {
		t.Fatal(err)
	}
	tmpl := &x509.Certificate{SerialNumber: big.NewInt(1), Subject: pkix.Name{CommonName: "t"}, NotBefore: time.Now().Add(-time.Hour), NotAfter: time.Now().Add(time.Hour)}
	der, err := x509.CreateCertificate(rand.Reader, tmpl, tmpl, &key.PublicKey, key)
	if err != nil {
		t.Fatal(err)
	}
	leaf, err := x509.ParseCertificate(der)
	if err != nil {
		t.Fatal(err)
	}
	cert := &certloader.Certificate{Leaf: leaf, Certificates: []*x509.Certificate{leaf}, PrivateKey: key}
	var trailer bytes.Buffer
	binary.Write(&trailer, binary.BigEndian, udifResourceFile{Signature: udifSignature, XMLOffset: 100000, XMLLength: 1000})
	img := append(make([]byte, 1000), trailer.Bytes()...)
	patch, _, err := Sign(context.Background(), trailer.Bytes(), bytes.NewReader(img), cert, &SignatureParams{HashFunc: crypto.SHA256})
	if err != nil {
		return
	}
	for _, p := range patch.Patches {
		if p.Offset > int64(len(img)) || int64(p.OldSize) > int64(len(img))-p.Offset {
			t.Errorf("a %d-byte image was signed into a patch that replaces %d bytes at offset %d", len(img), p.OldSize, p.Offset)
		}
	}
}
