package binpatch

// Replay driver for Load#alloc[*]: allocation must be proportional to the input, not to header fields.
import (
	"encoding/binary"
	"runtime"
	"testing"
)

func allocated(f func()) uint64 {
	var a, b runtime.MemStats
	runtime.GC()
	runtime.ReadMemStats(&a)
	f()
	runtime.ReadMemStats(&b)
	return b.TotalAlloc - a.TotalAlloc
}

func TestReplayLoadAllocationBounded(t *testing.T) {
	// 8-byte header announcing 2^20 patches, nothing else
	hdr := make([]byte, 8)
	binary.BigEndian.PutUint32(hdr[0:], 1)
	binary.BigEndian.PutUint32(hdr[4:], 1<<20)
	n := allocated(func() { _, _ = Load(hdr) })
	if limit := uint64(16*len(hdr) + 65536); n > limit {
		t.Errorf("Load of an %d-byte input allocated %d bytes (> %d): sized by the NumPatches header field", len(hdr), n, limit)
	}
	// one patch entry announcing a 64 MiB blob, no blob bytes present
	in := make([]byte, 8+16)
	binary.BigEndian.PutUint32(in[0:], 1)
	binary.BigEndian.PutUint32(in[4:], 1)
	binary.BigEndian.PutUint32(in[8+12:], 64<<20)
	n = allocated(func() { _, _ = Load(in) })
	if limit := uint64(16*len(in) + 65536); n > limit {
		t.Errorf("Load of a %d-byte input allocated %d bytes (> %d): sized by the NewSize header field", len(in), n, limit)
	}
}
