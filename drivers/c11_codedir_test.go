package csblob

// Replay driver for the code directory parser obligations (C11): slot counts and the hash offset come from
// the signature blob of the file being verified or re-signed.
import (
	"bytes"
	"encoding/binary"
	"runtime"
	"testing"
)

func codeDir(hashOffset, codeSlots, specialSlots uint32) []byte {
	hdr := CodeDirectoryHeader{
		Magic:            csCodeDirectory,
		Version:          0x20400,
		HashOffset:       hashOffset,
		CodeSlotCount:    codeSlots,
		SpecialSlotCount: specialSlots,
		HashSize:         32,
		HashType:         HashSHA256,
	}
	var b bytes.Buffer
	binary.Write(&b, binary.BigEndian, hdr)
	hdrLen := b.Len()
	b.Write(make([]byte, 64))
	blob := b.Bytes()
	binary.BigEndian.PutUint32(blob[4:], uint32(len(blob)))
	_ = hdrLen
	return blob
}

func TestReplayCodeDirectoryNoPanicBoundedAllocation(t *testing.T) {
	cases := map[string][]byte{
		"hash offset beyond the blob":       codeDir(1<<20, 1, 0),
		"more code slots than the blob has": codeDir(88, 100, 0),
		"special slots before the blob":     codeDir(88, 1, 50),
		"sixteen million code slots":        codeDir(88, 1<<24, 0),
	}
	for name, blob := range cases {
		var before, after runtime.MemStats
		runtime.ReadMemStats(&before)
		func() {
			defer func() {
				if r := recover(); r != nil {
					t.Errorf("%s: parseCodeDirectory panicked: %v", name, r)
				}
			}()
			_, _ = parseCodeDirectory(blob, cdCodeDirectorySlot)
		}()
		runtime.ReadMemStats(&after)
		if grown := after.TotalAlloc - before.TotalAlloc; grown > 16<<20 {
			t.Errorf("%s: %d bytes allocated while parsing a %d-byte blob", name, grown, len(blob))
		}
	}
}
