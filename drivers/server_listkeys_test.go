package server

// Replay driver (scenario) for (*Server).serveListKeys#before[listed_keys_can_be_signed_with]:
// every listed name must be one the caller could sign with, i.e. Config.GetKey succeeds for it.

import (
	"encoding/json"
	"net/http"
	"net/http/httptest"
	"testing"

	"github.com/sassoftware/relic/v8/config"
	"github.com/sassoftware/relic/v8/internal/authmodel"
)

type replayAuth struct{ roles []string }

func (a replayAuth) Authenticate(req *http.Request) (authmodel.UserInfo, error) {
	return &authmodel.CertificateInfo{Name: "replay", Roles: a.roles}, nil
}

func TestReplayListedKeysCanBeSignedWith(t *testing.T) {
	cfg := &config.Config{Keys: map[string]*config.KeyConfig{
		"good":        {Token: "tok", Roles: []string{"dev"}},
		"no-token":    {Roles: []string{"dev"}},
		"alias-to-no": {Alias: "no-token"},
	}}
	s := &Server{Config: cfg}
	h := authmodel.Middleware(replayAuth{roles: []string{"dev"}})(handleFunc(s.serveListKeys))
	rec := httptest.NewRecorder()
	h.ServeHTTP(rec, httptest.NewRequest("GET", "/list_keys", nil))
	var listed []string
	if err := json.Unmarshal(rec.Body.Bytes(), &listed); err != nil {
		t.Fatalf("unexpected reply %d %q: %v", rec.Code, rec.Body.String(), err)
	}
	for _, name := range listed {
		if _, err := cfg.GetKey(name); err != nil {
			t.Errorf("key %q is listed although the caller cannot sign with it: %v", name, err)
		}
	}
}
