package signers

// Replay driver (scenario) for (fileProducer).Apply#ensures[no_temp_file_left_on_error].

import (
	"errors"
	"os"
	"path/filepath"
	"strings"
	"testing"
)

type failingReader struct{ n int }

func (r *failingReader) Read(p []byte) (int, error) {
	if r.n == 0 {
		r.n++
		copy(p, "partial")
		return 7, nil
	}
	return 0, errors.New("connection reset")
}

func TestReplayApplyLeavesNoTempOnError(t *testing.T) {
	dir := t.TempDir()
	in := filepath.Join(dir, "in.bin")
	os.WriteFile(in, []byte("input"), 0o644)
	f, err := os.Open(in)
	if err != nil {
		t.Fatal(err)
	}
	defer f.Close()
	err = fileProducer{f}.Apply(filepath.Join(dir, "out.bin"), "application/octet-stream", &failingReader{})
	if err == nil {
		t.Fatal("expected an error from the failing reader")
	}
	ents, _ := os.ReadDir(dir)
	for _, e := range ents {
		if strings.Contains(e.Name(), ".tmp") {
			t.Fatalf("Apply returned %q and left temporary file %s next to the output", err, e.Name())
		}
	}
}
