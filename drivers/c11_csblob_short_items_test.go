package csblob

// Replay drivers for code signature items shorter than their own 8-byte header (C11): the item length is a
// field of the file, the header is cut off with data[8:].
import (
	"bytes"
	"encoding/binary"
	"testing"
)

// superblob with one item whose length field is n
func shortItemBlob(magic csMagic, itype uint32, n uint32) []byte {
	var b bytes.Buffer
	binary.Write(&b, binary.BigEndian, uint32(magic))
	binary.Write(&b, binary.BigEndian, uint32(12+8+8))
	binary.Write(&b, binary.BigEndian, uint32(1))
	binary.Write(&b, binary.BigEndian, itype)
	binary.Write(&b, binary.BigEndian, uint32(20))
	binary.Write(&b, binary.BigEndian, uint32(0xfade7171))
	binary.Write(&b, binary.BigEndian, n)
	return b.Bytes()
}

func TestReplayOldSignatureWithShortEntitlementItem(t *testing.T) {
	for _, slot := range []uint32{cdEntitlementSlot, cdEntitlementDERSlot} {
		func() {
			defer func() {
				if r := recover(); r != nil {
					t.Errorf("slot %d: DefaultsFromSignature panicked: %v", slot, r)
				}
			}()
			p := &SignatureParams{OldSignature: bytes.NewReader(shortItemBlob(csEmbeddedSignature, slot, 4))}
			if slot == cdEntitlementDERSlot {
				// the DER item is only looked at when an XML item is present as well
				blob := shortItemBlob(csEmbeddedSignature, cdEntitlementSlot, 8)
				blob = append(blob[:8], append([]byte{0, 0, 0, 2, 0, 0, 0, 5, 0, 0, 0, 28, 0, 0, 0, 7, 0, 0, 0, 36}, []byte{0xfa, 0xde, 0x71, 0x71, 0, 0, 0, 8, 0xfa, 0xde, 0x71, 0x72, 0, 0, 0, 4}...)...)
				binary.BigEndian.PutUint32(blob[4:], uint32(len(blob)))
				p.OldSignature = bytes.NewReader(blob)
			}
			_ = p.DefaultsFromSignature()
		}()
	}
}

func TestReplayRequirementsWithShortItem(t *testing.T) {
	defer func() {
		if r := recover(); r != nil {
			t.Errorf("Requirements panicked: %v", r)
		}
	}()
	b := &SigBlob{RawRequirements: shortItemBlob(csRequirements, 3, 4)}
	if _, err := b.Requirements(); err == nil {
		t.Errorf("requirement item shorter than its header: accepted")
	}
}

func TestReplayRequirementDataLengthWraps(t *testing.T) {
	defer func() {
		if r := recover(); r != nil {
			t.Errorf("Format panicked: %v", r)
		}
	}()
	// expression: opIdent (2) followed by a data field that claims 0xffffffff bytes
	raw := []byte{0, 0, 0, 1, 0, 0, 0, 2, 0xff, 0xff, 0xff, 0xff, 'a', 'b', 'c', 'd'}
	if _, err := (&Requirement{Raw: raw}).Format(); err == nil {
		t.Errorf("data length 0xffffffff: accepted")
	}
}

func TestReplayRequirementPlatformOperand(t *testing.T) {
	defer func() {
		if r := recover(); r != nil {
			t.Errorf("Format panicked: %v", r)
		}
	}()
	// expression: opPlatform (20) with its one integer operand and nothing behind it
	raw := []byte{0, 0, 0, 1, 0, 0, 0, 20, 0, 0, 0, 2}
	s, err := (&Requirement{Raw: raw}).Format()
	if err != nil || s != "platform = 2" {
		t.Errorf("platform = 2: formatted as %q, %v", s, err)
	}
}
