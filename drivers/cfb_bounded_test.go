package comdoc

// Bounded stand-in (labelled bounded, never counted as proved) for the whole-file clause of C18: after every
// sequence of up to N replacements of the signature stream (sizes around the short-stream cutoff and the sector
// sizes) through the real AddFile, the file on disk - parsed by a separate, independent reader written from the
// [MS-CFB] layout, not by package comdoc - must have an acyclic, pairwise disjoint set of sector chains that
// agree with the allocation tables, short chains inside the declared mini stream, and every other stream must
// read back byte for byte.

import (
	"bytes"
	"encoding/binary"
	"fmt"
	"io"
	"os"
	"path/filepath"
	"strconv"
	"testing"
)

type cfbView struct {
	raw                 []byte
	sectorSize, shortSz int
	sat, ssat           []int32
	dir                 []RawDirEnt
	cutoff              uint32
	used                map[int32]string // big sector -> owner
	usedShort           map[int32]string
}

func (v *cfbView) sector(id int32) ([]byte, error) {
	off := int(id+1) * v.sectorSize
	if id < 0 || off+v.sectorSize > len(v.raw) {
		return nil, fmt.Errorf("sector %d lies outside the %d-byte file", id, len(v.raw))
	}
	return v.raw[off : off+v.sectorSize], nil
}

func (v *cfbView) claim(id int32, owner string) error {
	if prev, dup := v.used[id]; dup {
		return fmt.Errorf("sector %d belongs to both %s and %s", id, prev, owner)
	}
	v.used[id] = owner
	return nil
}

func (v *cfbView) chain(start int32, owner string) ([]int32, error) {
	var out []int32
	for id := start; id != int32(SecIDEndOfChain); {
		if id < 0 || int(id) >= len(v.sat) {
			return nil, fmt.Errorf("%s: chain reaches sector %d, table has %d entries", owner, id, len(v.sat))
		}
		if err := v.claim(id, owner); err != nil {
			return nil, err
		}
		if _, err := v.sector(id); err != nil {
			return nil, fmt.Errorf("%s: %w", owner, err)
		}
		out = append(out, id)
		id = v.sat[id]
	}
	return out, nil
}

func parseCFB(raw []byte) (*cfbView, error) {
	if len(raw) < 512 {
		return nil, fmt.Errorf("short file")
	}
	var h Header
	if err := binary.Read(bytes.NewReader(raw), binary.LittleEndian, &h); err != nil {
		return nil, err
	}
	v := &cfbView{raw: raw, sectorSize: 1 << h.SectorSize, shortSz: 1 << h.ShortSectorSize, cutoff: h.MinStdStreamSize, used: map[int32]string{}, usedShort: map[int32]string{}}
	// master table: 109 entries in the header, then a chain of MSAT sectors
	var msat []int32
	for _, s := range h.MSAT {
		msat = append(msat, int32(s))
	}
	per := v.sectorSize/4 - 1
	next := int32(h.MSATNextSector)
	for n := uint32(0); n < h.MSATSectorCount; n++ {
		if err := v.claim(next, "MSAT"); err != nil {
			return nil, err
		}
		sec, err := v.sector(next)
		if err != nil {
			return nil, fmt.Errorf("MSAT: %w", err)
		}
		for i := 0; i < per; i++ {
			msat = append(msat, int32(binary.LittleEndian.Uint32(sec[4*i:])))
		}
		next = int32(binary.LittleEndian.Uint32(sec[4*per:]))
	}
	if next != int32(SecIDEndOfChain) && next != int32(SecIDFree) {
		return nil, fmt.Errorf("MSAT chain continues behind its declared %d sectors", h.MSATSectorCount)
	}
	// allocation table
	nsat := 0
	for _, s := range msat {
		if s == int32(SecIDFree) {
			continue
		}
		nsat++
		if err := v.claim(s, "SAT"); err != nil {
			return nil, err
		}
		sec, err := v.sector(s)
		if err != nil {
			return nil, fmt.Errorf("SAT: %w", err)
		}
		for i := 0; i < v.sectorSize/4; i++ {
			v.sat = append(v.sat, int32(binary.LittleEndian.Uint32(sec[4*i:])))
		}
	}
	if uint32(nsat) != h.SATSectors {
		return nil, fmt.Errorf("header declares %d SAT sectors, master table lists %d", h.SATSectors, nsat)
	}
	for id, owner := range v.used {
		want := int32(SecIDSAT)
		if owner == "MSAT" {
			want = int32(SecIDMSAT)
		}
		if int(id) >= len(v.sat) || v.sat[id] != want {
			return nil, fmt.Errorf("%s sector %d is not marked as such in the table", owner, id)
		}
	}
	// directory
	dirChain, err := v.chain(int32(h.DirNextSector), "directory")
	if err != nil {
		return nil, err
	}
	for _, id := range dirChain {
		sec, _ := v.sector(id)
		ents := make([]RawDirEnt, v.sectorSize/128)
		if err := binary.Read(bytes.NewReader(sec), binary.LittleEndian, ents); err != nil {
			return nil, err
		}
		v.dir = append(v.dir, ents...)
	}
	// short table
	ssatChain, err := v.chain(int32(h.SSATNextSector), "SSAT")
	if err != nil {
		return nil, err
	}
	if uint32(len(ssatChain)) != h.SSATSectorCount {
		return nil, fmt.Errorf("header declares %d SSAT sectors, chain has %d", h.SSATSectorCount, len(ssatChain))
	}
	for _, id := range ssatChain {
		sec, _ := v.sector(id)
		for i := 0; i < v.sectorSize/4; i++ {
			v.ssat = append(v.ssat, int32(binary.LittleEndian.Uint32(sec[4*i:])))
		}
	}
	return v, nil
}

// streams returns name -> content of every stream, checking every chain on the way.
func (v *cfbView) streams() (map[string][]byte, error) {
	if len(v.dir) == 0 || v.dir[0].Type != DirRoot {
		return nil, fmt.Errorf("no root entry")
	}
	root := v.dir[0]
	miniChain, err := v.chain(int32(root.NextSector), "mini stream")
	if err != nil {
		return nil, err
	}
	if int(root.StreamSize) > len(miniChain)*v.sectorSize {
		return nil, fmt.Errorf("root entry declares a mini stream of %d bytes, its chain holds %d", root.StreamSize, len(miniChain)*v.sectorSize)
	}
	var mini []byte
	for _, id := range miniChain {
		sec, _ := v.sector(id)
		mini = append(mini, sec...)
	}
	mini = mini[:root.StreamSize]
	out := map[string][]byte{}
	for i, e := range v.dir {
		if e.Type != DirStream {
			continue
		}
		name := fmt.Sprintf("%d:%s", i, e.Name())
		var content []byte
		if e.StreamSize < v.cutoff {
			n := 0
			for id := int32(e.NextSector); id != int32(SecIDEndOfChain); id = v.ssat[id] {
				if id < 0 || int(id) >= len(v.ssat) {
					return nil, fmt.Errorf("%s: short chain reaches %d, table has %d entries", name, id, len(v.ssat))
				}
				if prev, dup := v.usedShort[id]; dup {
					return nil, fmt.Errorf("short sector %d belongs to both %s and %s", id, prev, name)
				}
				v.usedShort[id] = name
				if (int(id)+1)*v.shortSz > len(mini) {
					return nil, fmt.Errorf("%s uses short sector %d but the root entry declares a mini stream of only %d short sectors", name, id, len(mini)/v.shortSz)
				}
				content = append(content, mini[int(id)*v.shortSz:(int(id)+1)*v.shortSz]...)
				if n++; n > len(v.ssat) {
					return nil, fmt.Errorf("%s: short chain does not end", name)
				}
			}
		} else {
			ch, err := v.chain(int32(e.NextSector), name)
			if err != nil {
				return nil, err
			}
			for _, id := range ch {
				sec, _ := v.sector(id)
				content = append(content, sec...)
			}
		}
		if int(e.StreamSize) > len(content) {
			return nil, fmt.Errorf("%s declares %d bytes, its chain holds %d", name, e.StreamSize, len(content))
		}
		out[e.Name()] = content[:e.StreamSize]
	}
	// every sector the table says is in use must belong to something, and free ones to nothing
	for id, nxt := range v.sat {
		_, owned := v.used[int32(id)]
		if nxt == int32(SecIDFree) && owned {
			return nil, fmt.Errorf("sector %d is used by %s but marked free", id, v.used[int32(id)])
		}
	}
	return out, nil
}

func TestBoundedSignatureStreamKeepsTheFileValid(t *testing.T) {
	maxOps := 2
	if v, err := strconv.Atoi(os.Getenv("RELICVC_BOUND")); err == nil && v > 0 {
		maxOps = v
	}
	orig, err := os.ReadFile("../../functest/packages/dummy.msi")
	if err != nil {
		t.Skip("fixture not present: ", err)
	}
	v0, err := parseCFB(orig)
	if err != nil {
		t.Fatalf("independent reader refuses the fixture: %v", err)
	}
	want, err := v0.streams()
	if err != nil {
		t.Fatalf("independent reader refuses the fixture: %v", err)
	}
	sizes := []int{0, 1, 63, 64, 65, 4095, 4096, 4097, 9000}
	names := []string{"\x05DigitalSignature", "\x05MsiDigitalSignatureEx"}
	cases := 0
	var run func(seq []int)
	run = func(seq []int) {
		if len(seq) > 0 {
			cases++
			p := filepath.Join(t.TempDir(), "x.msi")
			if err := os.WriteFile(p, orig, 0o600); err != nil {
				t.Fatal(err)
			}
			written := map[string][]byte{}
			for step, sz := range seq {
				name := names[step%2]
				content := bytes.Repeat([]byte{byte(0x40 + step)}, sz)
				cdf, err := WritePath(p)
				if err != nil {
					t.Fatalf("%v: open: %v", seq, err)
				}
				if err := cdf.AddFile(name, content); err != nil {
					t.Fatalf("%v: AddFile: %v", seq, err)
				}
				if err := cdf.Close(); err != nil {
					t.Fatalf("%v: Close: %v", seq, err)
				}
				written[name] = content
				raw, _ := os.ReadFile(p)
				v, err := parseCFB(raw)
				if err != nil {
					t.Fatalf("sizes %v, after step %d: %v", seq, step, err)
				}
				got, err := v.streams()
				if err != nil {
					t.Fatalf("sizes %v, after step %d: %v", seq, step, err)
				}
				for n, c := range want {
					if _, replaced := written[n]; !replaced && !bytes.Equal(got[n], c) {
						t.Fatalf("sizes %v, after step %d: stream %q changed", seq, step, n)
					}
				}
				for n, c := range written {
					if !bytes.Equal(got[n], c) {
						t.Fatalf("sizes %v, after step %d: stream %q does not read back (%d bytes, want %d)", seq, step, n, len(got[n]), len(c))
					}
				}
			}
		}
		if len(seq) < maxOps {
			for _, s := range sizes {
				run(append(append([]int{}, seq...), s))
			}
		}
	}
	run(nil)
	_ = io.EOF
	fmt.Printf("BOUNDED-CASES %d\n", cases)
}
