package signappx

// Replay driver for the appx bundle check (C11): two archive members whose names differ only in the kind of slash
// map to the same package of the bundle manifest; the second one finds the "already seen" marker -1 as its index.
import (
	"archive/zip"
	"bytes"
	"encoding/xml"
	"os"
	"testing"

	"github.com/sassoftware/relic/v8/lib/x509tools"
)

func TestReplayBundleWithTwoMembersForOnePackage(t *testing.T) {
	inner, err := os.ReadFile("../../functest/packages/App1_1.0.3.0_x64.appx")
	if err != nil {
		t.Skip("fixture not present: ", err)
	}
	sig, err := Verify(bytes.NewReader(inner), int64(len(inner)), true)
	if err != nil {
		t.Skip("fixture does not verify: ", err)
	}
	publisher := x509tools.FormatPkixName(sig.Signature.Certificate.RawSubject, x509tools.NameStyleMsOsco)
	panicked := false
	for try := 0; try < 40 && !panicked; try++ {
		// member order decides which of the two gets the package's offset; map iteration order decides which is
		// looked at first - try until the one with the right offset comes first
		var zb bytes.Buffer
		zw := zip.NewWriter(&zb)
		offsets := map[string]int64{}
		for _, name := range []string{"x/a.appx", "x\\a.appx"} {
			w, err := zw.CreateHeader(&zip.FileHeader{Name: name, Method: zip.Store})
			if err != nil {
				t.Fatal(err)
			}
			zw.Flush()
			offsets[name] = int64(zb.Len())
			w.Write(inner)
		}
		var manifest bytes.Buffer
		manifest.WriteString(xml.Header)
		manifest.WriteString(`<Bundle xmlns="http://schemas.microsoft.com/appx/2013/bundle" SchemaVersion="1.0"><Identity Name="x" Publisher="`)
		xml.EscapeText(&manifest, []byte(publisher))
		manifest.WriteString(`" Version="1.0.0.0"/><Packages><Package Type="application" Version="1.0.0.0" Architecture="x64" FileName="x\a.appx" Offset="`)
		manifest.WriteString(itoa(offsets[[]string{"x/a.appx", "x\\a.appx"}[try%2]]))
		manifest.WriteString(`" Size="` + itoa(int64(len(inner))) + `"/></Packages></Bundle>`)
		w, _ := zw.Create(bundleManifestFile)
		w.Write(manifest.Bytes())
		zw.Close()
		zr, err := zip.NewReader(bytes.NewReader(zb.Bytes()), int64(zb.Len()))
		if err != nil {
			t.Fatal(err)
		}
		files := zipFiles{}
		for _, f := range zr.File {
			files[f.Name] = f
		}
		func() {
			defer func() {
				if r := recover(); r != nil {
					panicked = true
					t.Errorf("bundle with two members for one package: verifyBundle panicked: %v", r)
				}
			}()
			_ = verifyBundle(bytes.NewReader(zb.Bytes()), files, sig, true)
		}()
	}
}

func itoa(n int64) string {
	var b [20]byte
	i := len(b)
	for {
		i--
		b[i] = byte('0' + n%10)
		n /= 10
		if n == 0 {
			break
		}
	}
	return string(b[i:])
}
