package csblob

// Replay driver for parseSuper#slice[7]/[8]: an index entry pointing before the data area.
import (
	"encoding/binary"
	"testing"
)

func TestReplayParseSuperNoPanic(t *testing.T) {
	mk := func(offset uint32) []byte {
		b := make([]byte, 12+8+16)
		binary.BigEndian.PutUint32(b[0:], 0xfade0cc0)
		binary.BigEndian.PutUint32(b[4:], uint32(len(b)))
		binary.BigEndian.PutUint32(b[8:], 1)
		binary.BigEndian.PutUint32(b[12:], 0)
		binary.BigEndian.PutUint32(b[16:], offset)
		return b
	}
	for _, off := range []uint32{0, 4, 12, 19} {
		func() {
			defer func() {
				if r := recover(); r != nil {
					t.Errorf("parseSuper with index offset %d panicked: %v", off, r)
				}
			}()
			_, _, _ = parseSuper(mk(off))
		}()
	}
}
