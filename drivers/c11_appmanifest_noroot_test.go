package appmanifest

// Replay driver for the application manifest reader (C11): a document without a root element.
import (
	"crypto"
	"crypto/rand"
	"crypto/rsa"
	_ "crypto/sha256"
	"crypto/x509"
	"crypto/x509/pkix"
	"math/big"
	"testing"
	"time"

	"github.com/sassoftware/relic/v8/lib/certloader"
)

func TestReplayManifestWithoutRootElement(t *testing.T) {
	key, err := rsa.GenerateKey(rand.Reader, 2048)
	if err != nil {
		t.Fatal(err)
	}
	tmpl := &x509.Certificate{SerialNumber: big.NewInt(1), Subject: pkix.Name{CommonName: "t"}, NotBefore: time.Now().Add(-time.Hour), NotAfter: time.Now().Add(time.Hour)}
	der, err := x509.CreateCertificate(rand.Reader, tmpl, tmpl, &key.PublicKey, key)
	if err != nil {
		t.Fatal(err)
	}
	leaf, _ := x509.ParseCertificate(der)
	cert := &certloader.Certificate{Leaf: leaf, Certificates: []*x509.Certificate{leaf}, PrivateKey: key}
	for _, body := range []string{"", "<?xml version=\"1.0\"?>", "<!-- nothing here -->"} {
		func() {
			defer func() {
				if r := recover(); r != nil {
					t.Errorf("manifest %q: Verify panicked: %v", body, r)
				}
			}()
			if _, err := Verify([]byte(body)); err == nil {
				t.Errorf("manifest %q: accepted", body)
			}
		}()
		func() {
			defer func() {
				if r := recover(); r != nil {
					t.Errorf("manifest %q: Sign panicked: %v", body, r)
				}
			}()
			if _, err := Sign([]byte(body), cert, crypto.SHA256); err == nil {
				t.Errorf("manifest %q: signed", body)
			}
		}()
	}
}
