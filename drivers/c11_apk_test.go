package apk

// Replay driver for unmarshalR#slice[1]: arbitrary bytes must give an error, not a panic.
import "testing"

func TestReplayUnmarshalNoPanic(t *testing.T) {
	inputs := [][]byte{{1, 0, 0, 0}, {5, 0, 0, 0, 1}, {0xff, 0xff, 0xff, 0x7f, 0, 0}, {8, 0, 0, 0, 4, 0, 0, 0}}
	for _, in := range inputs {
		func() {
			defer func() {
				if r := recover(); r != nil {
					t.Errorf("unmarshal(% x) panicked: %v", in, r)
				}
			}()
			var out []byte
			_ = unmarshal(in, &out)
			var list []apkSigner
			_ = unmarshal(in, &list)
		}()
	}
}
