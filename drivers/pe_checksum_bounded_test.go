package authenticode

// Bounded stand-in (labelled bounded, never counted as proved) for the arithmetic of the PE checksum that the
// contracts leave open (the 16-bit end-around-carry fold): for every length up to the bound, pseudo-random
// contents with 0xff-heavy stretches, every position of the checksum field that fits, and every split of the
// image into two or three even-sized writes, the real peChecksum must equal a reference written directly from
// the PE/COFF specification (sum of little-endian 16-bit words with the checksum field taken as zero, carries
// folded back, plus the file length).

import (
	"encoding/binary"
	"fmt"
	"math/rand"
	"os"
	"strconv"
	"testing"
)

func referencePEChecksum(img []byte, fieldPos int) uint32 {
	b := append([]byte{}, img...)
	if fieldPos >= 0 && fieldPos+4 <= len(b) {
		copy(b[fieldPos:], []byte{0, 0, 0, 0})
	}
	if len(b)%2 == 1 {
		b = append(b, 0)
	}
	var sum uint64
	for i := 0; i < len(b); i += 2 {
		sum += uint64(binary.LittleEndian.Uint16(b[i:]))
	}
	for sum>>16 != 0 {
		sum = (sum & 0xffff) + (sum >> 16)
	}
	return uint32(sum) + uint32(len(img))
}

func TestBoundedPEChecksumAgainstTheSpecification(t *testing.T) {
	maxLen := 160
	if v, err := strconv.Atoi(os.Getenv("RELICVC_BOUND")); err == nil && v > 0 {
		maxLen = v
	}
	seed, _ := strconv.Atoi(os.Getenv("VERIF_SEED"))
	rng := rand.New(rand.NewSource(int64(seed) + 1))
	cases := 0
	for n := 92; n <= maxLen; n++ {
		img := make([]byte, n)
		for i := range img {
			if rng.Intn(3) == 0 {
				img[i] = 0xff
			} else {
				img[i] = byte(rng.Intn(256))
			}
		}
		for peStart := 2; peStart+92 <= n; peStart += 2 {
			want := referencePEChecksum(img, peStart+88)
			for a := 0; a <= n; a += 2 {
				for b := a; b <= n; b += 2 {
					cases++
					h := NewPEChecksum(peStart)
					h.Write(img[:a])
					h.Write(img[a:b])
					h.Write(img[b:])
					got := binary.LittleEndian.Uint32(h.Sum(nil))
					if got != want {
						t.Fatalf("length %d, PE header at %d, writes of %d+%d+%d bytes: checksum %#x, specification %#x", n, peStart, a, b-a, n-b, got, want)
					}
				}
			}
		}
	}
	fmt.Printf("BOUNDED-CASES %d\n", cases)
}
