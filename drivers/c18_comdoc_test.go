package comdoc

// Replay drivers for freeSectors#index[*] and addStream nopanic obligations.
import (
	"os"
	"path/filepath"
	"testing"
)

func TestReplayFreeSectorsNoPanic(t *testing.T) {
	cases := []struct {
		name   string
		sat    []SecID
		sector SecID
	}{
		{"empty stream (chain starts with end-of-chain marker)", []SecID{SecIDEndOfChain, SecIDFree}, SecIDEndOfChain},
		{"start beyond the table", []SecID{SecIDEndOfChain}, 7},
		{"chain leaves the table", []SecID{5, SecIDFree}, 0},
	}
	for _, c := range cases {
		func() {
			defer func() {
				if r := recover(); r != nil {
					t.Errorf("%s: freeSectors panicked: %v", c.name, r)
				}
			}()
			freeSectors(c.sat, c.sector)
		}()
	}
}

func TestReplayAddEmptyStreamNoPanic(t *testing.T) {
	src, err := os.ReadFile("../../functest/packages/dummy.msi")
	if err != nil {
		t.Skip(err)
	}
	path := filepath.Join(t.TempDir(), "copy.msi")
	os.WriteFile(path, src, 0o644)
	f, err := os.OpenFile(path, os.O_RDWR, 0)
	if err != nil {
		t.Fatal(err)
	}
	defer f.Close()
	cdf, err := WriteFile(f)
	if err != nil {
		t.Fatal(err)
	}
	defer func() {
		if r := recover(); r != nil {
			t.Fatalf("AddFile with empty contents panicked: %v", r)
		}
	}()
	if err := cdf.AddFile("Empty", nil); err != nil {
		t.Log("AddFile returned an error (fine): ", err)
	}
}
