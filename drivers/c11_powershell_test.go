package authenticode

// Replay drivers for the PowerShell script readers (C11): the signature block markers are lines of the input.
import (
	"bytes"
	"crypto"
	_ "crypto/sha256"
	"strings"
	"testing"
)

func TestReplaySignatureBlockOnTheFirstLine(t *testing.T) {
	for _, in := range []string{
		"# SIG # Begin signature block\r\n# AAAA\r\n# SIG # End signature block\r\n",
		"\n# SIG # Begin signature block\r\n# AAAA\r\n# SIG # End signature block\r\n",
	} {
		func() {
			defer func() {
				if r := recover(); r != nil {
					t.Errorf("%q: DigestPowershell panicked: %v", in, r)
				}
			}()
			d, err := DigestPowershell(strings.NewReader(in), SigStyleHash, crypto.SHA256)
			if err == nil && (d.TextSize < 0 || d.TextSize+d.SigSize != int64(len(in))) {
				t.Errorf("%q: text %d + signature %d bytes do not add up to the input (%d)", in, d.TextSize, d.SigSize, len(in))
			}
		}()
	}
}

func TestReplaySignatureLineWithOverlappingDelimiters(t *testing.T) {
	for style, in := range map[PsSigStyle]string{
		SigStyleXML: "x\r\n<!-- SIG # Begin signature block -->\r\n<!-- -->\r\n<!-- SIG # End signature block -->\r\n",
		SigStyleC:   "x\r\n/* SIG # Begin signature block */\r\n/* */\r\n/* SIG # End signature block */\r\n",
	} {
		func() {
			defer func() {
				if r := recover(); r != nil {
					t.Errorf("%q: VerifyPowershell panicked: %v", in, r)
				}
			}()
			if _, err := VerifyPowershell(bytes.NewReader([]byte(in)), style, true); err == nil {
				t.Errorf("%q: accepted", in)
			}
		}()
	}
}
