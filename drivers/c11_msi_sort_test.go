package authenticode

// Replay driver for the MSI stream ordering (C11/C05): NameLength is a byte count taken from the file,
// NameRunes has 32 UTF-16 units.
import (
	"testing"

	"github.com/sassoftware/relic/v8/lib/comdoc"
)

func TestReplayMsiSortLongEqualNames(t *testing.T) {
	mk := func() *comdoc.DirEnt {
		e := &comdoc.DirEnt{}
		for i := 0; i < 31; i++ {
			e.NameRunes[i] = 'A'
		}
		e.NameLength = 64
		e.Type = comdoc.DirStream
		return e
	}
	defer func() {
		if r := recover(); r != nil {
			t.Errorf("two entries with the same 31-character name: sortMsiFiles panicked: %v", r)
		}
	}()
	sortMsiFiles([]*comdoc.DirEnt{mk(), mk()})
}
