package xmldsig

// Replay driver for the ECDSA SignatureValue obligations (C19): XML-DSig wants r and s as two
// fixed-width numbers of the curve's size, whatever their numeric values are.
import (
	"crypto"
	"crypto/ecdsa"
	"crypto/elliptic"
	"crypto/rand"
	_ "crypto/sha256"
	"encoding/base64"
	"io"
	"math/big"
	"testing"

	"github.com/beevik/etree"
	"github.com/sassoftware/relic/v8/lib/x509tools"
)

// smallSigner is an ECDSA key whose signatures have numerically small r and s (as happens by chance
// once in 65536 signatures on P-256 and for every fourth signature on P-521).
type smallSigner struct {
	pub *ecdsa.PublicKey
}

func (s smallSigner) Public() crypto.PublicKey { return s.pub }
func (s smallSigner) Sign(io.Reader, []byte, crypto.SignerOpts) ([]byte, error) {
	return x509tools.EcdsaSignature{R: big.NewInt(5), S: big.NewInt(7)}.Marshal(), nil
}

func TestReplayEcdsaSignatureValueHasTheCurveWidth(t *testing.T) {
	for _, curve := range []elliptic.Curve{elliptic.P256(), elliptic.P384(), elliptic.P521()} {
		key, err := ecdsa.GenerateKey(curve, rand.Reader)
		if err != nil {
			t.Fatal(err)
		}
		signature := etree.NewElement("Signature")
		signedinfo := signature.CreateElement("SignedInfo")
		if err := finishSignature(signature, signedinfo, crypto.SHA256, smallSigner{&key.PublicKey}, nil, SignOptions{}); err != nil {
			t.Fatal(err)
		}
		val, err := base64.StdEncoding.DecodeString(signature.FindElement("SignatureValue").Text())
		if err != nil {
			t.Fatal(err)
		}
		want := 2 * ((curve.Params().BitSize + 7) / 8)
		if len(val) != want {
			t.Errorf("%s: SignatureValue has %d bytes, the curve needs %d", curve.Params().Name, len(val), want)
		}
	}
}
