package machos

// Replay driver for the Mach-O header scanner (C11): the size of the load command block comes from the
// header of the file being read.
import (
	"bytes"
	"debug/macho"
	"encoding/binary"
	"runtime"
	"testing"
)

func TestReplayScanFileCommandBlockSizeFromTheHeader(t *testing.T) {
	var b bytes.Buffer
	binary.Write(&b, binary.LittleEndian, macho.FileHeader{Magic: macho.Magic64, Cpu: macho.CpuAmd64, Type: macho.TypeExec, Ncmd: 1, Cmdsz: 1 << 28})
	b.Write(make([]byte, 4))
	data := b.Bytes()
	var before, after runtime.MemStats
	runtime.ReadMemStats(&before)
	func() {
		defer func() {
			if r := recover(); r != nil {
				t.Errorf("scanFile panicked: %v", r)
			}
		}()
		_, _ = scanFile(bytes.NewReader(data))
	}()
	runtime.ReadMemStats(&after)
	if grown := after.TotalAlloc - before.TotalAlloc; grown > 16<<20 {
		t.Errorf("%d bytes allocated while reading a %d-byte file", grown, len(data))
	}
}
