#!/bin/sh
# Build the verifier offline and warm the export data of the repository's packages.
export GOFLAGS=-mod=mod GOPROXY=off GOSUMDB=off GOTOOLCHAIN=local
set -e
here=$(cd "$(dirname "$0")" && pwd)
mkdir -p "$here/bin" "$here/evidence"
(cd "$here/engine" && go build -o "$here/bin/relicvc" .)
(cd /repo && go build -tags verif ./... ) || true
